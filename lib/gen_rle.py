"""Translator plugin for the initial RLE / block cutting (property C04).

Transcribes into coq/Gen/RleGen.v the few places outside collect() itself on
which the statement "capacity = input piece = level * 100000, fresh encoder per
piece in default mode, encoder carried over in sequential mode" rests:

  compress.c  do_collect():      encoder_init(wblk->enc, bs100k * K, ...)     -> COLLECT_CAP_UNIT
  compress.c  do_collect_seq():  encoder_init(wblk->enc, bs100k * K, ...)     -> COLLECT_SEQ_CAP_UNIT
              ... and that call sits inside `if (wblk == NULL) { ... }`       -> SEQ_INIT_GUARDED
              number of encoder_init calls in each function                   -> *_INIT_CALLS
  process.c   set_memory_constraints(): in_granul = bs100k * K (compression)  -> IN_GRANUL_UNIT
  encode.c    encoder_init(): start values of rle_state, nblock, block_crc    -> INIT_*
  encode.c    collect(): qMax = block + s->max_block_size - K                 -> QMAX_BACKOFF
  encode.c    encode(): `if (s->rle_state >= K)` guarding the final flush     -> FLUSH_MIN_RUN

Only transcription; RleProofs.v states what the values have to be.
"""
import re

import cparse
from cparse import ParseError


def _const(expr, env):
    return cparse.eval_const(cparse.parse_expr(expr.strip()), env)


def _unit(expr, env, what):
    m = re.match(r"^\s*bs100k\s*\*\s*(.+?)\s*$", expr)
    if not m:
        raise ParseError("%s: expected `bs100k * <const>`, found `%s`" % (what, expr.strip()))
    return _const(m.group(1), env)


def _init_calls(body):
    return [m.group(1) for m in re.finditer(r"\bencoder_init\s*\(\s*wblk->enc\s*,\s*([^,]+),", body)]


def gen(repo):
    rd = lambda rel: open("%s/%s" % (repo, rel), encoding="latin-1").read()
    comp, proc, enc = rd("src/compress.c"), rd("src/process.c"), rd("src/encode.c")
    env = {}
    s = ""
    # --- compress.c
    b1 = cparse.find_function_body(comp, "do_collect")[1]
    b2 = cparse.find_function_body(comp, "do_collect_seq")[1]
    c1, c2 = _init_calls(b1), _init_calls(b2)
    if len(c1) < 1 or len(c2) < 1:
        raise ParseError("encoder_init(wblk->enc, ...) not found in do_collect/do_collect_seq")
    s += "Definition COLLECT_INIT_CALLS : N := %d.\n" % len(c1)
    s += "Definition COLLECT_SEQ_INIT_CALLS : N := %d.\n" % len(c2)
    s += "Definition COLLECT_CAP_UNIT : N := %d.\n" % _unit(c1[0], env, "do_collect")
    s += "Definition COLLECT_SEQ_CAP_UNIT : N := %d.\n" % _unit(c2[0], env, "do_collect_seq")
    # is the (first) encoder_init of do_collect_seq inside `if (wblk == NULL) { ... }` ?
    guarded = False
    for m in re.finditer(r"if\s*\(\s*wblk\s*==\s*NULL\s*\)\s*\{", b2):
        depth, j = 0, m.end() - 1
        while j < len(b2):
            if b2[j] == "{":
                depth += 1
            elif b2[j] == "}":
                depth -= 1
                if depth == 0:
                    break
            j += 1
        if "encoder_init" in b2[m.end():j]:
            guarded = True
    outside = re.sub(r"if\s*\(\s*wblk\s*==\s*NULL\s*\)\s*\{.*?\n  \}", "", b2, flags=re.S)
    s += "Definition SEQ_INIT_GUARDED : bool := %s.\n" % ("true" if guarded and "encoder_init" not in outside else "false")
    # collect() return value decides `done` in do_collect_seq
    s += "Definition SEQ_DONE_FROM_COLLECT : bool := %s.\n" % (
        "true" if re.search(r"\bdone\s*=\s*collect\s*\(", b2) else "false")
    # --- process.c
    b3 = cparse.find_function_body(proc, "set_memory_constraints")[1]
    m = re.search(r"if\s*\(\s*!\s*decompress\s*\)\s*\{(.*?)\}", b3, re.S)
    if not m:
        raise ParseError("compression branch of set_memory_constraints not found")
    g = re.search(r"\bin_granul\s*=\s*([^;]+);", m.group(1))
    if not g:
        raise ParseError("in_granul assignment (compression) not found")
    s += "Definition IN_GRANUL_UNIT : N := %d.\n" % _unit(g.group(1), env, "in_granul")
    # --- encode.c
    b4 = cparse.find_function_body(enc, "encoder_init")[1]
    for fld, nm in (("rle_state", "INIT_RLE_STATE"), ("nblock", "INIT_NBLOCK"), ("block_crc", "INIT_BLOCK_CRC")):
        g = re.search(r"s->%s\s*=\s*([^;]+);" % fld, b4)
        if not g:
            raise ParseError("encoder_init: s->%s not assigned" % fld)
        v = _const(g.group(1), env)
        s += "Definition %s : N := %d.\n" % (nm, v & 0xFFFFFFFF)
    b5 = cparse.find_function_body(enc, "collect")[1]
    g = re.search(r"qMax\s*=\s*block\s*\+\s*s->max_block_size\s*-\s*(\w+)\s*;", b5)
    if not g:
        raise ParseError("collect: qMax initialiser not of the form block + s->max_block_size - K")
    s += "Definition QMAX_BACKOFF : N := %d.\n" % _const(g.group(1), env)
    b6 = cparse.find_function_body(enc, "encode")[1]
    g = re.search(r"if\s*\(\s*s->rle_state\s*>=\s*(\w+)\s*\)\s*\{[^}]*block\s*\[\s*s->nblock\+\+\s*\]\s*=\s*s->rle_state\s*-\s*(\w+)\s*;", b6)
    if not g:
        raise ParseError("encode: final RLE flush not found")
    s += "Definition FLUSH_MIN_RUN : N := %d.\n" % _const(g.group(1), env)
    s += "Definition FLUSH_BIAS : N := %d.\n" % _const(g.group(2), env)
    return s


def generate(repo, out):
    out.write("RleGen.v", "src/compress.c src/process.c src/encode.c (lib/gen_rle.py)", lambda: gen(repo))
