"""Translator plugin for the decompression scheduler (properties C09, C10 and the
decompression parts of C11, C13)  ->  coq/Gen/SchedXTab.v

Transcribed from the *current* /repo/src on every run:

  process.h   the macros pos_eq / pos_lt / pos_le
  expand.c    can_attach (its assert and its `return <expr>;`), the guards can_parse,
              can_retrieve, can_emit, can_reorder, can_scan, can_terminate (single
              `return <expr>;`); the rows of task_list[] (order; guard and body of every
              row must be can_<name>/do_<name>); the pqueue_init/deque_init capacities
              of init(); whether each re-enqueue site tests `offset >= head_offs`
              (do_scan, do_retrieve on MORE: finding F4); whether each path that
              drops a retrieve job also drops its unord_blk (finding F3); whether do_scan
              passes over a candidate when unord_q is full (finding F9)
  process.c   the decompression slot/granule formulas of set_memory_constraints()

Expressions go through lib/cparse.py and are emitted as Gallina over the
vocabulary of coq/SchedX/XState.v.  Anything that does not have the expected
shape raises ParseError (=> broken tie), nothing is skipped.
"""
import os
import re

import cparse
from cparse import ParseError


def read(repo, rel):
    with open(os.path.join(repo, rel), encoding="latin-1") as f:
        return f.read()


# --------------------------------------------------------------------------
# typed transcription
# --------------------------------------------------------------------------
BOOL_IDS = {"parsing_done": "x_parsing_done st", "parse_token": "x_parse_token st",
            "eof": "x_eof st", "ultra": "x_ultra st"}
N_IDS = {"work_units": "x_work_units st", "out_slots": "x_out_slots st",
         "num_worker": "x_num_worker st", "total_out_slots": "x_total_out st",
         "head_offs": "x_head_offs st", "tail_offs": "x_tail_offs st"}
DBS_IDS = {"parser_bs": "(x_parser_bs st)", "bs": "bs"}
CONSTS = ("SCAN_THRESH", "EMIT_THRESH", "UNORD_THRESH")
QUEUES = {"retr_q": ("x_retr_q st", "rjob"), "emit_q": ("x_emit_q st", "ejob"),
          "reord_q": ("x_reord_q st", "oblk"), "scan_q": ("x_scan_q st", "dbs"),
          "unord_q": ("unord_q st", "unord"), "order_q": ("x_order_q st", "head"),
          "input_q": ("x_input_q st", "inblk")}
PEEK = {"retr_q": ("(peek_retr pos_lt st)", "rjob"), "emit_q": ("(peek_emit pos_lt st)", "ejob"),
        "reord_q": ("(peek_reord pos_lt st)", "oblk"), "scan_q": ("(peek_scan pos_lt st)", "dbs"),
        "unord_q": ("(peek_unord pos_lt st)", "unord")}
# (struct kind, field) -> (accessor, kind of the result)
FIELDS = {("rjob", "curr_pos"): ("r_cur", "dbs"), ("rjob", "base"): ("r_base", "pos"),
          ("ejob", "base"): ("e_base", "pos"), ("oblk", "base"): ("o_base", "pos"),
          ("head", "base"): ("h_base", "pos"), ("unord", "base"): ("u_base", "pos"),
          ("dbs", "pos"): ("d_pos", "pos"), ("dbs", "offset"): ("d_off", "N")}


class Tr:
    def __init__(self, st_ids=True):
        self.used = set()

    def struct(self, e):
        """Return (term, kind) for an expression denoting a structure/pointer."""
        k = e[0]
        if k == "id" and e[1] in DBS_IDS:
            return DBS_IDS[e[1]], "dbs"
        if k == "un" and e[1] == "*":
            return self.struct(e[2])
        if k == "call" and e[1] == ("id", "peek") and len(e[2]) == 1 and e[2][0][0] == "id" \
                and e[2][0][1] in PEEK:
            return PEEK[e[2][0][1]]
        if k == "call" and e[1] == ("id", "dq_get") and len(e[2]) == 2 and e[2][0] == ("id", "order_q"):
            ix = e[2][1]
            while ix[0] == "cast":
                ix = ix[2]
            if ix != ("num", 0):
                raise ParseError("dq_get(order_q, i) with i != 0 is outside the vocabulary")
            return "(order_head st)", "head"
        if k == "member":
            t, kind = self.struct(e[1])
            key = (kind, e[2])
            if key not in FIELDS:
                raise ParseError("field %s of %s is outside the vocabulary" % (e[2], kind))
            acc, rk = FIELDS[key]
            return "(%s %s)" % (acc, t), rk
        raise ParseError("not a structure expression: %r" % (e,))

    def n(self, e):
        k = e[0]
        if k == "num":
            return str(e[1])
        if k == "cast":
            return self.n(e[2])
        if k == "id":
            if e[1] in N_IDS:
                return "(%s)" % N_IDS[e[1]]
            if e[1] in CONSTS:
                return e[1]
            raise ParseError("identifier %s is not a counter of the vocabulary" % e[1])
        if k == "bin" and e[1] in ("+", "-", "*"):
            return "(%s %s %s)" % (self.n(e[2]), e[1], self.n(e[3]))
        if k == "member":
            t, kind = self.struct(e)
            if kind != "N":
                raise ParseError("not a number: %r" % (e,))
            return t
        raise ParseError("not an arithmetic expression: %r" % (e,))

    def pos(self, e):
        t, kind = self.struct(e)
        if kind != "pos":
            raise ParseError("not a position: %r" % (e,))
        return t

    def b(self, e):
        k = e[0]
        if k == "cast":
            return self.b(e[2])
        if k == "id":
            if e[1] in BOOL_IDS:
                return "(%s)" % BOOL_IDS[e[1]]
            raise ParseError("identifier %s used as a condition is not in the vocabulary" % e[1])
        if k == "un" and e[1] == "!":
            return "(negb %s)" % self.b(e[2])
        if k == "call":
            f = e[1]
            if f == ("id", "empty") and len(e[2]) == 1 and e[2][0][0] == "id" and e[2][0][1] in QUEUES:
                return "(nilb (%s))" % QUEUES[e[2][0][1]][0]
            if f in (("id", "pos_eq"), ("id", "pos_le"), ("id", "pos_lt")) and len(e[2]) == 2:
                return "(%s %s %s)" % (f[1], self.pos(e[2][0]), self.pos(e[2][1]))
            if f == ("id", "can_attach") and len(e[2]) == 1:
                t, kind = self.struct(e[2][0])
                if kind != "dbs":
                    raise ParseError("can_attach of a non-bitstream")
                return "(can_attach st %s)" % t
            raise ParseError("call %r is outside the vocabulary" % (f,))
        if k == "bin":
            op, a, c = e[1], e[2], e[3]
            if op == "&&":
                return "(%s && %s)" % (self.b(a), self.b(c))
            if op == "||":
                return "(%s || %s)" % (self.b(a), self.b(c))
            A, C = self.n(a), self.n(c)
            return {"<": "(%s <? %s)", ">": "(%s <? %s)", "<=": "(%s <=? %s)", ">=": "(%s <=? %s)",
                    "==": "(%s =? %s)", "!=": "(negb (%s =? %s))"}[op] % \
                ((C, A) if op in (">", ">=") else (A, C))
        raise ParseError("expression form not supported: %r" % (e,))


def single_return(body, what):
    rets = re.findall(r"\breturn\b\s*(.*?);", body, re.S)
    if len(rets) != 1:
        raise ParseError("%s: expected exactly one return statement, found %d" % (what, len(rets)))
    return cparse.parse_expr(rets[0])


def matching_block(text, start):
    """text[start] == '{' -> (inner text, index after the closing brace)"""
    assert text[start] == "{"
    depth = 0
    j = start
    while j < len(text):
        if text[j] == "{":
            depth += 1
        elif text[j] == "}":
            depth -= 1
            if depth == 0:
                return text[start + 1:j], j + 1
        j += 1
    raise ParseError("unbalanced braces")


def block_of_if(body, cond_re, what):
    m = re.search(r"\bif\s*\(\s*" + cond_re + r"\s*\)\s*\{", body)
    if not m:
        raise ParseError("%s: `if (%s) {` not found" % (what, cond_re))
    return matching_block(body, m.end() - 1)


def block_of_loop(body, cond_re, what):
    m = re.search(r"\bwhile\s*\(\s*" + cond_re + r"\s*\)\s*\{", body)
    if not m:
        raise ParseError("%s: `while (%s) {` not found" % (what, cond_re))
    return matching_block(body, m.end() - 1)


def conjuncts(e):
    if e[0] == "bin" and e[1] == "&&":
        return conjuncts(e[2]) + conjuncts(e[3])
    return [e]


DROP_LINK = r"drop_unord_link\s*\(\s*rb->unord_link\s*\)"
# queue -> name of the static variable that holds its capacity (filled by gen_caps)
CAP_VARS = {}


def gen_macros(repo):
    src = read(repo, "src/process.h")
    defs = cparse.find_defines(src)
    s = "(* process.h: order on struct position; .major/.minor are read as the two\n" \
        "   components of the model position (bit, sub), see SchedX/XPos.v *)\n"
    for name in ("pos_eq", "pos_lt", "pos_le"):
        if name not in defs or defs[name][0] is None:
            raise ParseError("macro %s(a,b) not found in process.h" % name)
        params = [p.strip() for p in defs[name][0].strip("()").split(",")]
        if len(params) != 2:
            raise ParseError("macro %s: two parameters expected" % name)
        e = cparse.parse_expr(defs[name][1])

        def tb(x):
            k = x[0]
            if k == "un" and x[1] == "!":
                return "(negb %s)" % tb(x[2])
            if k == "bin" and x[1] in ("&&", "||"):
                return "(%s %s %s)" % (tb(x[2]), x[1], tb(x[3]))
            if k == "bin" and x[1] in ("<", "==", "<=", ">", ">=", "!="):
                A, C = tn(x[2]), tn(x[3])
                return {"<": "(%s <? %s)", ">": "(%s <? %s)", "<=": "(%s <=? %s)", ">=": "(%s <=? %s)",
                        "==": "(%s =? %s)", "!=": "(negb (%s =? %s))"}[x[1]] % \
                    ((C, A) if x[1] in (">", ">=") else (A, C))
            if k == "call" and x[1][0] == "id" and x[1][1] in ("pos_eq", "pos_lt", "pos_le") and len(x[2]) == 2:
                return "(%s %s %s)" % (x[1][1], tp(x[2][0]), tp(x[2][1]))
            raise ParseError("macro %s: unsupported form %r" % (name, x))

        def tp(x):
            if x[0] == "id" and x[1] in params:
                return x[1]
            raise ParseError("macro %s: position argument %r" % (name, x))

        def tn(x):
            if x[0] == "member" and not x[3] and x[1][0] == "id" and x[1][1] in params and x[2] in ("major", "minor"):
                return "(%s %s)" % ("fst" if x[2] == "major" else "snd", x[1][1])
            raise ParseError("macro %s: unsupported operand %r" % (name, x))

        s += "Definition %s (%s %s : pos) : bool := %s.\n" % (name, params[0], params[1], tb(e))
    return s + "\n"


def gen_guards(src):
    tr = Tr()
    s = ""
    args, body = cparse.find_function_body(src, "can_attach")
    if not re.match(r"\s*struct\s+detached_bitstream\s+bs\s*$", args):
        raise ParseError("can_attach: unexpected parameter list %r" % args)
    asserts = re.findall(r"\bassert\s*\((.*?)\)\s*;", body, re.S)
    if len(asserts) > 1:
        raise ParseError("can_attach: more than one assert")
    s += "(* expand.c: can_attach() *)\n"
    s += "Definition can_attach_assert (st : xstate) (bs : dbs) : bool := %s.\n" % \
        (tr.b(cparse.parse_expr(asserts[0])) if asserts else "true")
    s += "Definition can_attach (st : xstate) (bs : dbs) : bool := %s.\n\n" % tr.b(single_return(body, "can_attach"))
    s += "(* expand.c: guards *)\n"
    for g in ("can_parse", "can_retrieve", "can_emit", "can_reorder", "can_scan", "can_terminate"):
        args, body = cparse.find_function_body(src, g)
        if args.strip() != "void":
            raise ParseError("%s: unexpected parameters" % g)
        if re.search(r"[;{}]", re.sub(r"\breturn\b.*?;", "", body, flags=re.S)):
            raise ParseError("%s: body is not a single return statement" % g)
        s += "Definition %s (st : xstate) : bool :=\n  %s.\n" % (g, tr.b(single_return(body, g)))
    return s + "\n"


def gen_tasks(src):
    d, rows = cparse.find_array(src, "task_list")
    names = []
    for r in rows:
        if not isinstance(r, list) or len(r) != 3:
            raise ParseError("task_list: row %r" % (r,))
        if r[0] == ("id", "NULL"):
            if r[1] != ("id", "NULL") or r[2] != ("id", "NULL"):
                raise ParseError("task_list: malformed terminator")
            break
        nm = r[0].strip('"')
        if r[1] != ("id", "can_" + nm) or r[2] != ("id", "do_" + nm):
            raise ParseError("task_list: row %s does not pair can_%s/do_%s" % (nm, nm, nm))
        names.append(nm)
    else:
        raise ParseError("task_list: no terminator row")
    ctor = {"reorder": "TReorder", "parse": "TParse", "emit": "TEmit", "retrieve": "TRetrieve", "scan": "TScan"}
    for n in names:
        if n not in ctor:
            raise ParseError("task_list: unknown task %s" % n)
    if sorted(names) != sorted(ctor):
        raise ParseError("task_list: tasks %r" % names)
    s = "(* expand.c: task_list[] (priority order) *)\n"
    s += "Definition task_list : list task := [%s].\n" % "; ".join(ctor[n] for n in names)
    s += "Definition ready (t : task) (st : xstate) : bool :=\n  match t with\n"
    for n in names:
        s += "  | %s => can_%s st\n" % (ctor[n], n)
    s += "  end.\n\n"
    return s


def gen_caps(src):
    CAP_VARS.clear()
    args, body = cparse.find_function_body(src, "init")
    body = re.sub(r"#ifdef\s+KJN_LBZIP2_VERIF.*?#endif", "", body, flags=re.S)
    caps = {}
    for m in re.finditer(r"\b(pqueue_init|deque_init)\s*\(\s*(\w+)\s*,", body):
        q = m.group(2)
        # argument up to the matching parenthesis
        j = m.end()
        depth = 1
        while depth:
            if body[j] == "(":
                depth += 1
            elif body[j] == ")":
                depth -= 1
            j += 1
        caps[q] = (m.group(1), cparse.parse_expr(body[m.end():j - 1]))
    want = {"input_q": "deque_init", "scan_q": "pqueue_init", "retr_q": "pqueue_init", "emit_q": "pqueue_init",
            "unord_q": "pqueue_init", "order_q": "deque_init", "reord_q": "pqueue_init"}
    if {k: v[0] for k, v in caps.items()} != want:
        raise ParseError("init(): queue initialisations %r" % {k: v[0] for k, v in caps.items()})
    # a capacity may be kept in a static variable assigned in init() just before (finding F9:
    # `unord_cap = <expr>; pqueue_init(unord_q, unord_cap);`): substitute its (single) definition
    for q in list(caps):
        kind, e = caps[q]
        if e[0] == "id" and e[1] not in ("in_slots", "work_units", "out_slots") and e[1] not in CONSTS:
            var = e[1]
            asg = re.findall(r"\b%s\s*=\s*([^;]+);" % re.escape(var), body)
            if len(asg) != 1:
                raise ParseError("init(): capacity variable %s: exactly one assignment expected, found %d" % (var, len(asg)))
            pos_asg = re.search(r"\b%s\s*=" % re.escape(var), body).start()
            pos_use = re.search(r"\b(pqueue_init|deque_init)\s*\(\s*%s\s*," % re.escape(q), body).start()
            if pos_asg > pos_use:
                raise ParseError("init(): capacity variable %s is assigned after it is used" % var)
            caps[q] = (kind, cparse.parse_expr(asg[0]))
            CAP_VARS[q] = var

    def tn(e):
        k = e[0]
        if k == "num":
            return str(e[1])
        if k == "cast":
            return tn(e[2])
        if k == "id" and e[1] in ("in_slots", "work_units", "out_slots"):
            return e[1]
        if k == "id" and e[1] in CONSTS:
            return e[1]
        if k == "bin" and e[1] in ("+", "-", "*"):
            return "(%s %s %s)" % (tn(e[2]), e[1], tn(e[3]))
        if k == "cond":
            return "(if %s then %s else %s)" % (tb(e[1]), tn(e[2]), tn(e[3]))
        raise ParseError("init(): capacity expression %r" % (e,))

    def tb(e):
        if e[0] == "bin" and e[1] in ("<", ">", "<=", ">="):
            A, C = tn(e[2]), tn(e[3])
            return {"<": "(%s <? %s)", ">": "(%s <? %s)", "<=": "(%s <=? %s)", ">=": "(%s <=? %s)"}[e[1]] % \
                ((C, A) if e[1] in (">", ">=") else (A, C))
        raise ParseError("init(): condition %r" % (e,))

    s = "(* expand.c: init(): queue capacities as functions of the initial counters\n" \
        "   (in_slots = total_in_slots, work_units = num_worker, out_slots = total_out_slots) *)\n"
    for q in ("input_q", "scan_q", "retr_q", "emit_q", "unord_q", "order_q", "reord_q"):
        s += "Definition cap_%s (in_slots work_units out_slots : N) : N := %s.\n" % (q, tn(caps[q][1]))
    # initial values of the scheduler variables
    inits = dict(re.findall(r"\b(head_offs|tail_offs|eof_missing|parsing_done|parse_token|reord_offs)\s*=\s*(\w+)\s*;", body))
    want_init = {"head_offs": "0", "tail_offs": "0", "eof_missing": "0", "parsing_done": "false",
                 "parse_token": "true", "reord_offs": "0"}
    for k in want_init:
        if k not in inits:
            raise ParseError("init(): initial value of %s not found" % k)
    s += "Definition init_parse_token : bool := %s.\n" % inits["parse_token"]
    s += "Definition init_parsing_done : bool := %s.\n" % inits["parsing_done"]
    for k in ("head_offs", "tail_offs", "eof_missing", "reord_offs"):
        if not inits[k].isdigit():
            raise ParseError("init(): %s = %s" % (k, inits[k]))
        s += "Definition init_%s : N := %s.\n" % (k, inits[k])
    return s + "\n"


def gen_slots(repo):
    src = read(repo, "src/process.c")
    env = {}
    import gen_from_source
    env = gen_from_source.define_env([read(repo, "src/common.h")])
    args, body = cparse.find_function_body(src, "set_memory_constraints")
    body = re.sub(r"#ifdef\s+KJN_LBZIP2_VERIF.*?#endif", "", body, flags=re.S)
    m = re.search(r"if\s*\(\s*!decompress\s*\)\s*\{", body)
    if not m:
        raise ParseError("set_memory_constraints: `if (!decompress)` not found")
    _, j = matching_block(body, m.end() - 1)
    m2 = re.match(r"\s*else\s+if\s*\(\s*!small\s*\)\s*\{", body[j:])
    if not m2:
        raise ParseError("set_memory_constraints: `else if (!small)` not found")
    normal, j2 = matching_block(body, j + m2.end() - 1)
    m3 = re.match(r"\s*else\s*\{", body[j2:])
    if not m3:
        raise ParseError("set_memory_constraints: final else not found")
    smallb, j3 = matching_block(body, j2 + m3.end() - 1)
    if body[j3:].strip():
        raise ParseError("set_memory_constraints: trailing statements %r" % body[j3:].strip()[:60])

    def tn(e):
        k = e[0]
        if k == "num":
            return str(e[1])
        if k == "cast":
            return tn(e[2])
        if k == "id" and e[1] == "num_worker":
            return "num_worker"
        if k == "id" and e[1] in env:
            return str(env[e[1]])
        if k == "bin" and e[1] in ("+", "-", "*"):
            return "(%s %s %s)" % (tn(e[2]), e[1], tn(e[3]))
        raise ParseError("set_memory_constraints: expression %r" % (e,))

    def assigns(blk, what):
        out = {}
        rest = blk
        for m in re.finditer(r"\b(total_in_slots|total_out_slots|in_granul|out_granul)\s*=\s*([^;]+);", blk):
            out[m.group(1)] = tn(cparse.parse_expr(m.group(2)))
            rest = rest.replace(m.group(0), "")
        if rest.strip():
            raise ParseError("set_memory_constraints (%s): unexpected statements %r" % (what, rest.strip()[:60]))
        if sorted(out) != ["in_granul", "out_granul", "total_in_slots", "total_out_slots"]:
            raise ParseError("set_memory_constraints (%s): assignments %r" % (what, sorted(out)))
        return out

    a, b = assigns(normal, "!small"), assigns(smallb, "small")
    s = "(* process.c: set_memory_constraints(), decompression *)\n"
    for k, nm in (("total_in_slots", "dec_total_in"), ("total_out_slots", "dec_total_out"),
                  ("in_granul", "dec_in_granul"), ("out_granul", "dec_out_granul")):
        s += "Definition %s (small : bool) (num_worker : N) : N := if small then %s else %s.\n" % (nm, b[k], a[k])
    return s + "\n"


def gen_sites(src):
    """Finding F4 / F3: guards at the re-enqueue sites and unord_blk hand-back on the drop paths."""
    s = "(* expand.c: re-enqueue sites and drop paths *)\n"
    # --- do_scan
    _, body = cparse.find_function_body(src, "do_scan")
    m = re.search(r"\bif\s*\(([^{};]*?)\)\s*\{\s*enqueue\s*\(\s*scan_q\s*,\s*bs\s*\)\s*;\s*\}", body, re.S)
    if not m or len(re.findall(r"enqueue\s*\(\s*scan_q", body)) != 1:
        raise ParseError("do_scan: re-enqueue site `if (...) { enqueue(scan_q, bs); }` not found")
    cj = [c for c in conjuncts(cparse.parse_expr(m.group(1)))]
    data_left = cparse.parse_expr("true_bitstream.data != true_bitstream.limit")
    head_chk = cparse.parse_expr("bs->offset >= head_offs")
    if data_left not in cj or any(c not in (data_left, head_chk) for c in cj):
        raise ParseError("do_scan: re-enqueue condition %r not understood" % m.group(1).strip())
    s += "Definition requeue_scan_checks_head : bool := %s.\n" % ("true" if head_chk in cj else "false")
    # creation of the speculative job: `if (pos_le(bs->pos, parser_bs.pos) [|| bs->offset < head_offs]) { work_units++; } else {`
    nt = re.sub(r"\bTrace\s*\(\(.*?\)\)\s*;", "", body, flags=re.S)
    m = re.search(r"\bif\s*\(([^{};]*?)\)\s*\{\s*work_units\s*\+\+\s*;\s*\}\s*"
                  r"(?:else\s+if\s*\(([^{};]*?)\)\s*\{\s*work_units\s*\+\+\s*;\s*\}\s*)?else\s*\{", nt, re.S)
    if not m:
        raise ParseError("do_scan: known-pattern test `if (...) { work_units++; } [else if (...) { work_units++; }] else {` not found")
    if len(re.findall(r"work_units\s*\+\+", nt[m.start():])) != (2 if m.group(2) else 1):
        raise ParseError("do_scan: unexpected work_units++ after the candidate test")
    if m.group(2) is not None:
        # finding F9: the candidate is passed over when unord_q is full; the bound must be the
        # variable unord_q was allocated with
        var = CAP_VARS.get("unord_q")
        if var is None:
            raise ParseError("do_scan: capacity test %r but unord_q is not allocated from a variable" % m.group(2).strip())
        if cparse.parse_expr(m.group(2)) != cparse.parse_expr("size(unord_q) >= %s" % var):
            raise ParseError("do_scan: capacity test %r is not `size(unord_q) >= %s`" % (m.group(2).strip(), var))
        # the variable must not be written anywhere but in init()
        if len(re.findall(r"\b%s\s*(?:=[^=]|\+\+|--|[-+*/|&^]=)" % re.escape(var), src)) != 1:
            raise ParseError("capacity variable %s is written outside init()" % var)
    cap_chk = m.group(2) is not None

    def disjuncts(e):
        if e[0] == "bin" and e[1] == "||":
            return disjuncts(e[2]) + disjuncts(e[3])
        return [e]
    dj = disjuncts(cparse.parse_expr(m.group(1)))
    known = cparse.parse_expr("pos_le(bs->pos, parser_bs.pos)")
    stale = cparse.parse_expr("bs->offset < head_offs")
    if known not in dj or any(d not in (known, stale) for d in dj):
        raise ParseError("do_scan: known-pattern condition %r not understood" % m.group(1).strip())
    s += "Definition scan_job_checks_head : bool := %s.\n" % ("true" if stale in dj else "false")
    s += "Definition scan_checks_unord_cap : bool := %s.\n" % ("true" if cap_chk else "false")
    # --- do_retrieve
    _, body = cparse.find_function_body(src, "do_retrieve")
    if len(re.findall(r"enqueue\s*\(\s*retr_q", body)) != 1:
        raise ParseError("do_retrieve: exactly one enqueue(retr_q, ...) expected")
    more, _ = block_of_if(body, r"rv\s*==\s*MORE", "do_retrieve")
    more_nt = re.sub(r"\bTrace\s*\(\(.*?\)\)\s*;", "", more, flags=re.S)
    more_nt = re.sub(r"\bcheck_invariants\s*\(\s*\)\s*;", "", more_nt)
    more_nt = re.sub(r"\bassert\s*\(.*?\)\s*;", "", more_nt, flags=re.S)
    if re.match(r"\s*enqueue\s*\(\s*retr_q\s*,\s*rb\s*\)\s*;\s*return\s*;\s*$", more_nt):
        checks, drops = False, False
    else:
        m = re.match(r"\s*if\s*\(\s*rb->curr_pos\.offset\s*>=\s*head_offs\s*\)\s*\{\s*enqueue\s*\(\s*retr_q\s*,\s*rb\s*\)\s*;\s*\}"
                     r"\s*else\s*\{(.*)\}\s*return\s*;\s*$", more_nt, re.S)
        if not m:
            raise ParseError("do_retrieve: MORE branch not understood: %r" % more_nt.strip()[:200])
        els = m.group(1)
        if not (re.search(r"decoder_free\s*\(\s*&rb->ds\s*\)", els) and re.search(r"free\s*\(\s*rb\s*\)", els)
                and re.search(r"work_units\s*\+\+", els)):
            raise ParseError("do_retrieve: stale-job branch must release decoder, job and work unit")
        rest = re.sub(DROP_LINK + r"\s*;|decoder_free\s*\(\s*&rb->ds\s*\)\s*;|free\s*\(\s*rb\s*\)\s*;|work_units\s*\+\+\s*;", "", els)
        if rest.strip():
            raise ParseError("do_retrieve: stale-job branch has unexpected statements %r" % rest.strip()[:100])
        checks, drops = True, bool(re.search(DROP_LINK, els))
    s += "Definition requeue_retr_checks_head : bool := %s.\n" % ("true" if checks else "false")
    s += "Definition stale_drops_link : bool := %s.\n" % ("true" if drops else "false")
    done, _ = block_of_if(body, r"parsing_done", "do_retrieve")
    s += "Definition retr_done_drops_link : bool := %s.\n" % ("true" if re.search(DROP_LINK, done) else "false")
    m = re.search(r"\bif\s*\(\s*rb->unord_link\s*!=\s*NULL\s*&&\s*rb->unord_link->complete\s*&&\s*!rb->unord_link->legitimate\s*\)\s*\{", body)
    if not m:
        raise ParseError("do_retrieve: abort branch (complete && !legitimate) not found")
    ab, _ = matching_block(body, m.end() - 1)
    s += "Definition retr_abort_drops_link : bool := %s.\n" % ("true" if re.search(DROP_LINK, ab) else "false")
    # --- advance(), FINISH branch of do_parse
    _, body = cparse.find_function_body(src, "advance")
    loop, _ = block_of_loop(body, r"!empty\s*\(\s*retr_q\s*\)\s*&&\s*peek\s*\(\s*retr_q\s*\)->curr_pos\.offset\s*<\s*head_offs", "advance")
    s += "Definition advance_drops_link : bool := %s.\n" % ("true" if re.search(DROP_LINK, loop) else "false")
    _, body = cparse.find_function_body(src, "do_parse")
    fin, _ = block_of_if(body, r"rv\s*==\s*FINISH", "do_parse")
    loop, _ = block_of_loop(fin, r"!empty\s*\(\s*retr_q\s*\)", "do_parse/FINISH")
    s += "Definition finish_drops_link : bool := %s.\n" % ("true" if re.search(DROP_LINK, loop) else "false")
    # the helper itself, when present, must have the expected body
    if re.search(r"\bdrop_unord_link\s*\(", src):
        _, hb = cparse.find_function_body(src, "drop_unord_link")
        hb = re.sub(r"\s+", "", hb)
        if hb != "if(ub==NULL)return;if(ub->complete)free(ub);elseub->complete=true;":
            raise ParseError("drop_unord_link: unexpected body %r" % hb[:120])
    return s + "\n"


def body_fn(repo):
    src = cparse.strip_comments(read(repo, "src/expand.c"))
    s = "From LBZ Require Import Gen.Consts SchedX.XState.\nLocal Open Scope bool_scope.\n\n"
    s += gen_macros(repo)
    s += gen_guards(src)
    s += gen_tasks(src)
    s += gen_caps(src)
    s += gen_slots(repo)
    s += gen_sites(src)
    return s


def generate(repo, out):
    out.write("SchedXTab.v", "src/expand.c src/process.c src/process.h", lambda: body_fn(repo))
