"""Translator plugin for the compression scheduler and the copy pipeline
(properties C11, C03, C13, C19)  ->  coq/Gen/SchedCTab.v

Transcribed from the *current* /repo/src on every run:

  compress.c  TRANSM_THRESH; the guards can_collect, can_collect_seq,
              can_transmit, can_reorder, can_terminate (single `return <expr>;`);
              the rows of task_list[] (order, guard and body of every row);
              the pqueue_init(q, n) capacities in init()
  process.c   copy_terminate (`if (<expr>) xraise(SIGUSR2); return false;`);
              the signalling condition of sched_unlock(); the resets in
              primary_thread(); the slot formulas of set_memory_constraints()
              for every mode; the constants of copy(); the 4-byte sniff of work()
              (magic test, fallback condition, length of the header write)
  encode.c    encoder_alloc_size() expression
  sizeof      of the heap-allocated structures, measured by compiling a probe
              against the current sources

Expressions go through lib/cparse.py's expression parser and are emitted as
Gallina over the vocabulary of coq/SchedC/SchedCIface.v.  Anything that does not
have the expected shape raises ParseError (=> broken tie), nothing is skipped.
"""
import os
import re
import shutil
import subprocess
import tempfile

import cparse
from cparse import ParseError


def read(repo, rel):
    with open(os.path.join(repo, rel), encoding="latin-1") as f:
        return f.read()


# ---------------------------------------------------------------------------
# expression -> Gallina
# ---------------------------------------------------------------------------
BOOL_IDS = {"ultra": "g_ultra v", "eof": "g_eof v", "collect_token": "g_collect_token v"}
NAT_IDS = {"work_units": "g_work_units v", "out_slots": "g_out_slots v",
           "num_worker": "g_num_worker v", "total_out_slots": "g_total_out_slots v"}
PTR_IDS = {"unfinished_work": "g_unfinished_work v"}
QUEUES = {"coll_q": "g_coll_q v", "trans_q": "g_trans_q v", "reord_q": "g_reord_q v"}
POS_IDS = {"order": "(g_order v)"}


class Tr:
    """Typed transcription of a C expression AST (cparse tuples)."""

    def __init__(self, consts, nat_ids=None, bool_ids=None, n_ids=None):
        self.consts = consts            # name -> int, emitted by name
        self.nat_ids = dict(NAT_IDS if nat_ids is None else nat_ids)
        self.bool_ids = dict(BOOL_IDS if bool_ids is None else bool_ids)
        self.n_ids = n_ids or {}
        self.used_consts = set()

    def kind(self, e):
        k = e[0]
        if k == "num":
            return "nat"
        if k == "id":
            if e[1] in self.bool_ids:
                return "bool"
            if e[1] in self.nat_ids or e[1] in self.consts or e[1] in self.n_ids:
                return "nat"
            if e[1] in PTR_IDS:
                return "ptr"
            if e[1] in POS_IDS:
                return "pos"
            if e[1] == "NULL":
                return "null"
            raise ParseError("identifier %s is not in the guard vocabulary" % e[1])
        if k == "un" and e[1] == "!":
            return "bool"
        if k == "bin":
            if e[1] in ("&&", "||", "<", ">", "<=", ">=", "==", "!="):
                return "bool"
            if e[1] in ("+", "-", "*"):
                return "nat"
        if k == "call":
            f = e[1]
            if f == ("id", "empty") or f == ("id", "pos_eq"):
                return "bool"
            if f == ("id", "peek"):
                return "elem"
        if k == "member" and e[2] == "pos":
            return "pos"
        if k == "cast":
            return self.kind(e[2])
        raise ParseError("expression form not supported: %r" % (e,))

    def queue(self, e):
        if e[0] == "id" and e[1] in QUEUES:
            return QUEUES[e[1]]
        raise ParseError("not a known queue: %r" % (e,))

    def nat(self, e):
        k = e[0]
        if k == "num":
            return str(e[1])
        if k == "cast":
            return self.nat(e[2])
        if k == "id":
            if e[1] in self.nat_ids:
                return self.nat_ids[e[1]]
            if e[1] in self.n_ids:
                return self.n_ids[e[1]]
            if e[1] in self.consts:
                self.used_consts.add(e[1])
                return e[1]
            raise ParseError("identifier %s is not a counter" % e[1])
        if k == "bin" and e[1] in ("+", "-", "*"):
            return "(%s %s %s)" % (self.nat(e[2]), e[1], self.nat(e[3]))
        raise ParseError("not an arithmetic expression: %r" % (e,))

    def posx(self, e):
        if e[0] == "id" and e[1] in POS_IDS:
            return POS_IDS[e[1]]
        if e[0] == "member" and e[2] == "pos" and e[3] and e[1][0] == "call" and e[1][1] == ("id", "peek") \
                and len(e[1][2]) == 1:
            return "(peek_pos (%s))" % self.queue(e[1][2][0])
        raise ParseError("not a position expression: %r" % (e,))

    def boolx(self, e):
        k = e[0]
        if k == "cast":
            return self.boolx(e[2])
        if k == "id":
            if e[1] in self.bool_ids:
                return "(%s)" % self.bool_ids[e[1]]
            if e[1] in self.nat_ids:
                return "(nat_true (%s))" % self.nat_ids[e[1]]
            if e[1] in PTR_IDS:
                return "(%s)" % PTR_IDS[e[1]]
            raise ParseError("identifier %s used as a condition is not in the vocabulary" % e[1])
        if k == "un" and e[1] == "!":
            return "(negb %s)" % self.boolx(e[2])
        if k == "bin":
            op, a, b = e[1], e[2], e[3]
            if op == "&&":
                return "(%s && %s)" % (self.boolx(a), self.boolx(b))
            if op == "||":
                return "(%s || %s)" % (self.boolx(a), self.boolx(b))
            ka, kb = self.kind(a), self.kind(b)
            if op in ("==", "!=") and {ka, kb} == {"ptr", "null"}:
                p = a if ka == "ptr" else b
                s = "(%s)" % PTR_IDS[p[1]]
                return s if op == "!=" else "(negb %s)" % s
            if op in ("==", "!=") and ka == "bool" and kb == "bool":
                s = "(Bool.eqb %s %s)" % (self.boolx(a), self.boolx(b))
                return s if op == "==" else "(negb %s)" % s
            if ka == "nat" and kb == "nat":
                x, y = self.nat(a), self.nat(b)
                return {"<": "(%s <? %s)", ">": "(%s <? %s)", "<=": "(%s <=? %s)", ">=": "(%s <=? %s)",
                        "==": "(%s =? %s)", "!=": "(negb (%s =? %s))"}[op] % ((y, x) if op in (">", ">=") else (x, y))
            raise ParseError("comparison %s between %s and %s not supported" % (op, ka, kb))
        if k == "call":
            f, args = e[1], e[2]
            if f == ("id", "empty") and len(args) == 1:
                return "(q_empty (%s))" % self.queue(args[0])
            if f == ("id", "pos_eq") and len(args) == 2:
                return "(pos_eq %s %s)" % (self.posx(args[0]), self.posx(args[1]))
        raise ParseError("condition form not supported: %r" % (e,))


def statements(body):
    """Split a flat function body into `;`-terminated statements (depth 0)."""
    out, depth, cur = [], 0, ""
    for c in body:
        if c in "({":
            depth += 1
        elif c in ")}":
            depth -= 1
        if c == ";" and depth == 0:
            if cur.strip():
                out.append(cur.strip())
            cur = ""
        else:
            cur += c
    if cur.strip():
        out.append(cur.strip())
    return out


def strip_ifdef_verif(src):
    """Remove the add-only hook regions (#ifdef KJN_LBZIP2_VERIF ... [#else ...] #endif),
    keeping the #else part if any."""
    out = []
    stack = []          # entries: None (foreign conditional) or "skip"/"keep" (hook region state)
    for line in src.split("\n"):
        s = line.strip()
        if re.match(r"#\s*ifdef\s+KJN_LBZIP2_VERIF\b", s):
            stack.append("skip")
            continue
        if re.match(r"#\s*if", s):
            stack.append(None)
        elif re.match(r"#\s*else\b", s) and stack and stack[-1] is not None:
            stack[-1] = "keep"
            continue
        elif re.match(r"#\s*endif\b", s) and stack:
            top = stack.pop()
            if top is not None:
                continue
        if "skip" in stack:
            continue
        out.append(line)
    return "\n".join(out)


def single_return(src, fn):
    _, body = cparse.find_function_body(src, fn)
    st = statements(body)
    if len(st) != 1 or not st[0].startswith("return"):
        raise ParseError("%s() is no longer a single `return <expr>;` (%d statements)" % (fn, len(st)))
    return cparse.parse_expr(st[0][len("return"):].strip())


def conjuncts(e):
    if e[0] == "bin" and e[1] == "&&":
        return conjuncts(e[2]) + conjuncts(e[3])
    return [e]


# ---------------------------------------------------------------------------
# sizeof probe
# ---------------------------------------------------------------------------
BASE_DEFS = ["-D_XOPEN_SOURCE=700", "-D_FILE_OFFSET_BITS=64", '-DPACKAGE_NAME="lbzip2"',
             '-DPACKAGE_VERSION="devel"', "-std=c99", "-DKJN_LBZIP2_VERIF"]


def measure_sizes(repo):
    probes = [
        ("compress.c", [("in_blk", "struct in_blk"), ("work_blk", "struct work_blk"), ("ptr", "void *")]),
        ("process.c", [("block", "struct block")]),
        ("encode.c", [("encoder_state", "struct encoder_state"), ("uint32", "uint32_t")]),
    ]
    res = {}
    d = tempfile.mkdtemp(prefix="schedc-gen-")
    try:
        for cfile, items in probes:
            p = os.path.join(d, "probe_" + cfile)
            with open(p, "w") as f:
                f.write('#include "%s"\n' % os.path.join(repo, "src", cfile))
                for nm, ty in items:
                    f.write("char verif_sz_%s[sizeof(%s)];\n" % (nm, ty))
            o = p + ".o"
            r = subprocess.run(["gcc", "-c", "-w", "-O0"] + BASE_DEFS + ["-I", os.path.join(repo, "src"), "-o", o, p],
                               stdout=subprocess.PIPE, stderr=subprocess.PIPE, timeout=120)
            if r.returncode != 0:
                raise ParseError("sizeof probe for %s does not compile: %s" % (cfile, r.stderr.decode("latin-1")[-400:]))
            r = subprocess.run(["nm", "-S", o], stdout=subprocess.PIPE, stderr=subprocess.PIPE, timeout=60)
            for line in r.stdout.decode().splitlines():
                parts = line.split()
                if len(parts) == 4 and parts[3].startswith("verif_sz_"):
                    res[parts[3][len("verif_sz_"):]] = int(parts[1], 16)
            for nm, _ in items:
                if nm not in res:
                    raise ParseError("sizeof probe: no size for %s" % nm)
    finally:
        shutil.rmtree(d, ignore_errors=True)
    return res


# ---------------------------------------------------------------------------
def gen_schedctab(repo):
    comp = strip_ifdef_verif(read(repo, "src/compress.c"))
    proc = strip_ifdef_verif(read(repo, "src/process.c"))
    enc = read(repo, "src/encode.c")
    common = read(repo, "src/common.h")
    ench = read(repo, "src/encode.h")
    s = "From LBZ Require Import SchedC.SchedCIface.\nLocal Open Scope nat_scope.\nLocal Open Scope bool_scope.\n\n"

    # ---- constants
    defs = cparse.find_defines(comp)
    if "TRANSM_THRESH" not in defs or defs["TRANSM_THRESH"][0] is not None:
        raise ParseError("TRANSM_THRESH not defined in compress.c")
    thresh = cparse.eval_const(cparse.parse_expr(defs["TRANSM_THRESH"][1]), {})
    if not (0 <= thresh < 4000):
        raise ParseError("TRANSM_THRESH out of the transcribable range: %r" % thresh)
    consts = {"TRANSM_THRESH": thresh}
    s += "(* compress.c *)\nDefinition TRANSM_THRESH : nat := %d.\n\n" % thresh

    # ---- guards
    tr = Tr(consts)
    for g in ("can_collect", "can_collect_seq", "can_transmit", "can_reorder", "can_terminate"):
        e = single_return(comp, g)
        s += "Definition %s (v : gview) : bool :=\n  %s.\n" % (g, tr.boolx(e))
        s += "Definition %s_conjuncts : nat := %d.\n\n" % (g, len(conjuncts(e)))

    # ---- task list
    _, rows = cparse.find_array(comp, "task_list")
    names = {"collect": "T_collect", "collect_seq": "T_collect_seq", "transmit": "T_transmit", "reorder": "T_reorder"}
    order = []
    if not rows or rows[-1] != [("id", "NULL")] * 3:
        raise ParseError("task_list[] is not terminated by a { NULL, NULL, NULL } row")
    for row in rows[:-1]:
        if len(row) != 3 or not isinstance(row[0], str):
            raise ParseError("task_list[] row has an unexpected shape: %r" % (row,))
        nm = row[0].strip('"')
        if nm not in names:
            raise ParseError("task_list[] names an unknown task %r" % nm)
        if row[1] != ("id", "can_" + nm) or row[2] != ("id", "do_" + nm):
            raise ParseError("task_list[] row %r does not pair can_%s/do_%s" % (row, nm, nm))
        if names[nm] in order:
            raise ParseError("task_list[] lists %s twice" % nm)
        order.append(names[nm])
    s += "Definition task_order : list task := [%s].\n" % "; ".join(order)
    s += "Definition task_guard (t : task) : gview -> bool :=\n  match t with\n"
    for nm, c in names.items():
        s += "  | %s => can_%s\n" % (c, nm)
    s += "  end.\n\n"

    # ---- capacities in init()
    _, body = cparse.find_function_body(comp, "init")
    caps = {}
    for st in statements(body):
        m = re.match(r"pqueue_init\s*\(\s*(\w+)\s*,\s*(.+)\)\s*$", st, re.S)
        if m:
            caps[m.group(1)] = cparse.parse_expr(m.group(2))
    if sorted(caps) != ["coll_q", "reord_q", "trans_q"]:
        raise ParseError("init(): expected pqueue_init of coll_q, trans_q, reord_q, found %s" % sorted(caps))
    ctr = Tr(consts, nat_ids={"in_slots": "in_slots", "work_units": "work_units", "out_slots": "out_slots",
                              "num_worker": "num_worker"}, bool_ids={})
    for q in ("coll_q", "trans_q", "reord_q"):
        s += "Definition cap_%s (in_slots work_units out_slots num_worker : nat) : nat := %s.\n" % (q, ctr.nat(caps[q]))
    s += "\n"

    # ---- process.c: primary_thread resets
    _, body = cparse.find_function_body(proc, "primary_thread")
    resets = {}
    for st in statements(body):
        m = re.match(r"(eof|in_slots|out_slots|work_units)\s*=\s*(.+)$", st, re.S)
        if m:
            if m.group(1) in resets:
                raise ParseError("primary_thread(): %s assigned twice" % m.group(1))
            resets[m.group(1)] = m.group(2).strip()
    if sorted(resets) != ["eof", "in_slots", "out_slots", "work_units"]:
        raise ParseError("primary_thread(): resets of eof/in_slots/out_slots/work_units not found (%s)" % sorted(resets))
    if resets["eof"] not in ("false", "0"):
        raise ParseError("primary_thread(): eof is reset to %r" % resets["eof"])
    s += "(* process.c: primary_thread() *)\nDefinition init_eof : bool := false.\n"
    itr = Tr({}, nat_ids={"total_in_slots": "total_in_slots", "total_out_slots": "total_out_slots",
                          "num_worker": "num_worker"}, bool_ids={})
    for nm in ("in_slots", "out_slots", "work_units"):
        s += "Definition init_%s (total_in_slots total_out_slots num_worker : nat) : nat := %s.\n" % (
            nm, itr.nat(cparse.parse_expr(resets[nm])))
    s += "\n"

    # ---- sched_unlock signalling condition
    _, body = cparse.find_function_body(proc, "sched_unlock")
    body_nt = re.sub(r"VERIF_\w+\s*\([^;]*\)\s*;", "", body)
    st = statements(body_nt)
    m = None
    if len(st) == 3 and st[0] == "select_task()" and st[2].startswith("xunlock"):
        m = re.match(r"if\s*\((.*)\)\s*xsignal\s*\(\s*&sched_cond\s*\)\s*$", st[1], re.S)
    if not m:
        raise ParseError("sched_unlock() no longer has the shape select_task(); if (<c>) xsignal(&sched_cond); xunlock")
    utr = Tr({}, nat_ids={}, bool_ids={})
    PTR_IDS["next_task"] = "next_task_nonnull"
    ce = cparse.parse_expr(m.group(1).replace("process->finished()", "verif_finished"))
    utr.bool_ids["verif_finished"] = "finished"
    try:
        s += "(* process.c: sched_unlock() *)\nDefinition unlock_signal (next_task_nonnull finished : bool) : bool :=\n  %s.\n\n" % utr.boolx(ce)
    finally:
        del PTR_IDS["next_task"]

    # ---- worker loop shape (transcribed as three facts checked textually)
    _, body = cparse.find_function_body(proc, "worker_thread_proc")
    flat = re.sub(r"\s+", "", re.sub(r"(VERIF_TRACE|Trace)\s*\(.*?\)\s*;", "", body, flags=re.S))
    want = "xlock(&sched_mutex);for(;;){while(next_task!=NULL){next_task->run();select_task();}" \
           "if(process->finished())break;xwait(&sched_cond,&sched_mutex);}xbroadcast(&sched_cond);xunlock(&sched_mutex);"
    if flat != want:
        raise ParseError("worker_thread_proc() no longer has the modelled loop shape: %s" % flat[:300])
    _, body = cparse.find_function_body(proc, "select_task")
    flat = re.sub(r"\s+", "", body)
    want = "conststructtask*task;for(task=process->tasks;task->ready!=NULL;++task){if(task->ready()){next_task=task;return;}}next_task=NULL;"
    if flat != want:
        raise ParseError("select_task() no longer has the modelled shape: %s" % flat[:300])
    s += "Definition worker_loop_shape_checked : bool := true.\n\n"

    # ---- set_memory_constraints
    _, body = cparse.find_function_body(proc, "set_memory_constraints")
    env = {}
    for k, (params, b) in cparse.find_defines(common).items():
        if params is None and b:
            try:
                env[k] = cparse.eval_const(cparse.parse_expr(b), env)
            except Exception:
                pass
    m = re.match(r"\s*if\s*\(\s*!\s*decompress\s*\)\s*\{(.*?)\}\s*else\s+if\s*\(\s*!\s*small\s*\)\s*\{(.*?)\}\s*else\s*\{(.*?)\}\s*$",
                 body, re.S)
    if not m:
        raise ParseError("set_memory_constraints(): if (!decompress) / else if (!small) / else chain not found")
    s += "(* process.c: set_memory_constraints() *)\n"
    for mode, blk in zip(("compress", "expand", "expand_small"), m.groups()):
        asg = {}
        for st in statements(blk):
            mm = re.match(r"(\w+)\s*=\s*(.+)$", st, re.S)
            if not mm:
                raise ParseError("set_memory_constraints(): unexpected statement %r" % st)
            if mm.group(1) in asg:
                raise ParseError("set_memory_constraints(): %s assigned twice" % mm.group(1))
            asg[mm.group(1)] = cparse.parse_expr(mm.group(2))
        if sorted(asg) != ["in_granul", "out_granul", "total_in_slots", "total_out_slots"]:
            raise ParseError("set_memory_constraints(%s): assigns %s" % (mode, sorted(asg)))
        str_ = Tr({}, nat_ids={"num_worker": "num_worker"}, bool_ids={})
        s += "Definition total_in_slots_%s (num_worker : nat) : nat := %s.\n" % (mode, str_.nat(asg["total_in_slots"]))
        s += "Definition total_out_slots_%s (num_worker : nat) : nat := %s.\n" % (mode, str_.nat(asg["total_out_slots"]))
        gtr = Tr({}, nat_ids={}, bool_ids={}, n_ids={"bs100k": "bs100k"})
        ig = asg["in_granul"]
        try:
            v = cparse.eval_const(ig, env)
            s += "Definition in_granul_%s (bs100k : N) : N := %d%%N.\n" % (mode, v)
        except ParseError:
            s += "Definition in_granul_%s (bs100k : N) : N := %s%%N.\n" % (mode, gtr.nat(ig))
        try:
            v = cparse.eval_const(asg["out_granul"], env)
            if v >= 0:
                s += "Definition out_granul_%s : N := %d%%N.\n" % (mode, v)
            else:
                s += "(* out_granul_%s = %d: ignored by the process *)\n" % (mode, v)
        except ParseError:
            raise ParseError("set_memory_constraints(%s): out_granul is not a constant" % mode)
    s += "\n"

    # ---- copy(): constants and termination test
    _, body = cparse.find_function_body(proc, "copy")
    cc = {}
    for st in statements(body):
        mm = re.match(r"(eof|in_slots|out_slots|total_out_slots|in_granul)\s*=\s*(.+)$", st, re.S)
        if mm:
            if mm.group(1) in cc:
                raise ParseError("copy(): %s assigned twice" % mm.group(1))
            cc[mm.group(1)] = mm.group(2).strip()
    if sorted(cc) != ["eof", "in_granul", "in_slots", "out_slots", "total_out_slots"]:
        raise ParseError("copy(): expected assignments not found (%s)" % sorted(cc))
    if cc["eof"] not in ("false", "0"):
        raise ParseError("copy(): eof reset to %r" % cc["eof"])
    s += "(* process.c: copy() *)\n"
    for nm in ("in_slots", "out_slots", "total_out_slots"):
        s += "Definition copy_%s : nat := %d.\n" % (nm, cparse.eval_const(cparse.parse_expr(cc[nm]), env))
    s += "Definition copy_in_granul : N := %d%%N.\n" % cparse.eval_const(cparse.parse_expr(cc["in_granul"]), env)
    flat = re.sub(r"\s+", "", body)
    if "process=&pseudo_process;init_io();halt();uninit_io();" not in flat:
        raise ParseError("copy(): init_io(); halt(); uninit_io(); sequence not found")
    m = re.search(r"pseudo_process\s*=\s*\{([^}]*)\}", body)
    if not m or [x.strip() for x in m.group(1).split(",") if x.strip()] != \
            ["&null_task", "NULL", "NULL", "copy_terminate", "copy_on_input_avail", "copy_on_write_complete"]:
        raise ParseError("copy(): pseudo_process initialiser changed")
    _, body = cparse.find_function_body(proc, "copy_terminate")
    st = statements(body)
    m = None
    if len(st) == 2:
        m = re.match(r"if\s*\((.*)\)\s*xraise\s*\(\s*SIGUSR2\s*\)\s*$", st[0], re.S)
    if not m or st[1] not in ("return false", "return 0"):
        raise ParseError("copy_terminate() is no longer `if (<c>) xraise(SIGUSR2); return false;`")
    s += "Definition copy_raise_cond (v : gview) : bool :=\n  %s.\n" % Tr({}).boolx(cparse.parse_expr(m.group(1)))
    s += "Definition copy_terminate_result : bool := false.\n"
    # the two callbacks: order of the slot operation and the hand-over
    for fn, want in (("copy_on_input_avail", "sched_lock();out_slots--;sched_unlock();sink_write_buffer(buffer,size,size);"),
                     ("copy_on_write_complete", "source_release_buffer(buffer);sched_lock();out_slots++;sched_unlock();")):
        _, b = cparse.find_function_body(proc, fn)
        if re.sub(r"\s+", "", b) != want:
            raise ParseError("%s() no longer has the modelled shape: %s" % (fn, re.sub(r"\s+", "", b)[:200]))
    s += "Definition copy_callbacks_shape_checked : bool := true.\n\n"

    # ---- work(): 4-byte sniff
    _, body = cparse.find_function_body(proc, "work")
    m = re.search(r"uint32_t\s+header\s*;\s*size_t\s+vacant\s*=\s*sizeof\s*\(\s*header\s*\)\s*;\s*xread\s*\(\s*&header\s*,\s*&vacant\s*\)\s*;", body)
    if not m:
        raise ParseError("work(): uint32_t header; size_t vacant = sizeof(header); xread(&header, &vacant); not found")
    defs = cparse.find_defines(proc)
    if "MAGIC" not in defs or defs["MAGIC"][0] is None:
        raise ParseError("work(): #define MAGIC(k) not found")
    mparam = defs["MAGIC"][0].strip("() ")
    mbody = cparse.parse_expr(defs["MAGIC"][1])
    rest = re.sub(r"^\s*#[^\n]*$", "", body[m.end():], flags=re.M)
    m = re.match(r"\s*if\s*\((.*?)\)\s*\{\s*bs100k\s*=\s*ntohl\s*\(\s*header\s*\)\s*-\s*MAGIC\s*\(\s*0\s*\)\s*;\s*schedule\s*\(\s*&expansion\s*\)\s*;\s*\}"
                  r"\s*else\s+if\s*\((.*?)\)\s*\{\s*xwrite\s*\(\s*&header\s*,\s*(.*?)\)\s*;\s*copy\s*\(\s*\)\s*;\s*\}\s*else\s*\{\s*failf",
                  rest, re.S)
    if not m:
        raise ParseError("work(): magic test / -cdf fallback / failf chain not found")

    def ntr(e):
        """N-valued / boolean transcription of the sniff conditions."""
        k = e[0]
        if k == "num":
            return "%d%%N" % e[1]
        if k == "id" and e[1] == "vacant":
            return "(N.of_nat vacant)"
        if k == "id" and e[1] == mparam:
            return "k"
        if k == "call" and e[1] == ("id", "ntohl") and e[2] == [("id", "header")]:
            return "hdr"
        if k == "call" and e[1] == ("id", "MAGIC") and len(e[2]) == 1:
            return "(MAGIC %s)" % ntr(e[2][0])
        if k == "call" and e[1] == ("id", "sizeof") and e[2] == [("id", "header")]:
            return "4%N"
        if k == "bin" and e[1] in ("&&", "||"):
            return "(%s %s %s)" % (ntr(e[2]), e[1], ntr(e[3]))
        if k == "bin" and e[1] in ("<", "<=", "=="):
            return "(%s %s %s)%%N" % (ntr(e[2]), {"<": "<?", "<=": "<=?", "==": "=?"}[e[1]], ntr(e[3]))
        if k == "bin" and e[1] in (">", ">="):
            return "(%s %s %s)%%N" % (ntr(e[3]), {">": "<?", ">=": "<=?"}[e[1]], ntr(e[2]))
        if k == "bin" and e[1] in ("+", "-"):
            return "(%s %s %s)%%N" % (ntr(e[2]), e[1], ntr(e[3]))
        raise ParseError("work(): expression form not supported: %r" % (e,))

    s += "(* process.c: work() *)\nDefinition MAGIC (k : N) : N := %s.\n" % ntr(mbody)
    s += "Definition sniff_size : nat := 4.\n"
    s += "Definition is_magic (vacant : nat) (hdr : N) : bool :=\n  %s.\n" % ntr(cparse.parse_expr(m.group(1)))
    fb = re.sub(r"\s+", "", m.group(2))
    if fb != "force&&ospec.fd==STDOUT_FILENO":
        raise ParseError("work(): fallback condition changed: %s" % fb)
    s += "Definition fallback_cond (force out_is_stdout : bool) : bool := force && out_is_stdout.\n"
    le = cparse.parse_expr(m.group(3))

    def lentr(e):
        if e[0] == "num":
            return str(e[1])
        if e == ("call", ("id", "sizeof"), [("id", "header")]):
            return "sniff_size"
        if e == ("id", "vacant"):
            return "vacant"
        if e[0] == "bin" and e[1] in ("+", "-"):
            return "(%s %s %s)" % (lentr(e[2]), e[1], lentr(e[3]))
        raise ParseError("work(): header write length not supported: %r" % (e,))
    s += "Definition copy_hdr_len (vacant : nat) : nat := %s.\n\n" % lentr(le)

    # ---- sizes (C13)
    sz = measure_sizes(repo)
    s += "(* sizeof of heap-allocated objects, measured by compiling against the current sources *)\n"
    for nm in ("in_blk", "work_blk", "block", "ptr", "encoder_state", "uint32"):
        s += "Definition sizeof_%s : N := %d%%N.\n" % (nm, sz[nm])
    env2 = dict(env)

    def sztr(e):
        if e[0] == "num":
            return "%d" % e[1]
        if e[0] == "cast":
            return sztr(e[2])
        if e[0] == "id":
            if e[1] == "max_block_size":
                return "mbs"
            if e[1] in env2:
                return "%d" % env2[e[1]]
            raise ParseError("encoder_alloc_size(): unknown identifier %s" % e[1])
        if e[0] == "call" and e[1] == ("id", "sizeof") and len(e[2]) == 1 and e[2][0] == ("id", "uint32_t"):
            return "sizeof_uint32"
        if e[0] == "bin" and e[1] in ("+", "*"):
            return "(%s %s %s)" % (sztr(e[2]), e[1], sztr(e[3]))
        raise ParseError("encoder_alloc_size(): form not supported: %r" % (e,))
    # `sizeof(struct encoder_state)` is two identifier tokens: substitute before parsing
    _, ebody = cparse.find_function_body(enc, "encoder_alloc_size")
    st = statements(ebody)
    if len(st) != 1 or not st[0].startswith("return"):
        raise ParseError("encoder_alloc_size() is not a single return")
    txt = re.sub(r"sizeof\s*\(\s*struct\s+encoder_state\s*\)", "%d" % sz["encoder_state"], st[0][len("return"):])
    s += "Definition encoder_alloc_size (mbs : N) : N := %s%%N.\n" % sztr(cparse.parse_expr(txt))
    # allocation sites of compress.c / process.c (object, size expression) as text, checked for presence
    sites = [
        (comp, "do_collect", "wblk->enc=xmalloc(encoder_alloc_size(bs100k*100000u));"),
        (comp, "do_collect_seq", "wblk->enc=xmalloc(encoder_alloc_size(bs100k*100000u));"),
        (comp, "do_transmit", "wblk->buffer=XNMALLOC((wblk->size+3)/4,uint32_t);"),
        (comp, "do_transmit", "free(wblk->enc);"),
        (comp, "on_write_complete", "free(buffer);"),
        (proc, "source_thread_proc", "buffer=XNMALLOC(vacant,uint8_t);"),
        (proc, "source_release_buffer", "free(buffer);"),
    ]
    for src, fn, text in sites:
        _, b = cparse.find_function_body(src, fn)
        if text not in re.sub(r"\s+", "", b):
            raise ParseError("allocation site `%s` not found in %s()" % (text, fn))
    s += "Definition alloc_sites_checked : bool := true.\n"
    return s


def generate(repo, out):
    out.write("SchedCTab.v", "src/compress.c src/process.c src/encode.c (guards, task list, capacities, slot formulas, copy, sizes)",
              lambda: gen_schedctab(repo))
