"""Generic pipeline of one property check (DESIGN.md section 2.4)."""
import json
import os
import re
import sys
import time
import traceback

import vlib
from vlib import VERIF, COQ, WORK


class Broken:
    """Something that no longer checks: a proof obligation, the translator, the
    assumption audit or a correspondence case.  Not yet a property violation."""

    def __init__(self, kind, what, detail=""):
        self.kind, self.what, self.detail = kind, what, detail

    def as_dict(self):
        return {"kind": self.kind, "what": self.what, "detail": self.detail}


class Violation:
    def __init__(self, key, summary, replay_payload, found_input=True):
        self.key = key                  # identifying key matched against known_findings.json
        self.summary = summary
        self.payload = replay_payload
        self.found_input = found_input


class PropertyCheck:
    pid = "C00"
    props_module = None                 # e.g. "Properties.Properties_C14"
    extra_targets = []                  # further .vo targets (e.g. extraction files)
    extra_props = []                    # further statement-only modules whose Theorems are audited like props_module
    gen_files = []                      # Gen/*.v consumed (translator failure => broken tie)
    allowed_axioms = []                 # names of stdlib axioms tolerated in Print Assumptions
    trusted_base = []
    assumptions = []
    level = "proof"

    def __init__(self, tier, seed):
        self.tier = tier
        self.seed = seed
        self.rng = vlib.SplitMix(seed)
        self.work = os.path.join(WORK, self.pid)
        os.makedirs(self.work, exist_ok=True)
        self.broken = []
        self.violations = []
        self.notes = []

    # ---- to be provided by the concrete check --------------------------------
    def correspond(self):
        """Run model and implementation on the same cases.  Return a dict with at
        least evaluations, distinct_nontrivial, rule, samples; append Broken
        ('correspondence', ...) to self.broken for disagreements."""
        return {"evaluations": 0, "distinct_nontrivial": 0, "rule": "none", "samples": []}

    def search(self):
        """Called when something is broken: look for a concrete input on which the
        *property itself* fails on the implementation.  Return list of Violation."""
        return []

    def direct(self):
        """Optional always-on direct tests of the property on the implementation
        (support; may return Violations even when nothing is broken)."""
        return []

    # ---- pipeline -----------------------------------------------------------------
    def run(self):
        t0 = time.time()
        cov = {}
        props_v = self.props_module.replace(".", "/") + ".v"
        with vlib.Lock("coq"):
            gen = vlib.regenerate()
            for g in self.gen_files:
                st = gen.get(g, {"ok": False, "error": "not generated"})
                if not st.get("ok"):
                    self.broken.append(Broken("translator", "Gen/" + g, st.get("error", "")))
            if "__translator__" in gen:
                self.broken.append(Broken("translator", "gen_from_source.py", gen["__translator__"]["error"]))
            extra_v = [m.replace(".", "/") + ".v" for m in self.extra_props]
            targets = [props_v + "o"] + [v + "o" for v in extra_v] + list(self.extra_targets)
            build = vlib.coq_build(targets, timeout=3000 if self.tier == "thorough" else 1500)
        cone = vlib.module_deps(props_v)
        for v in extra_v:
            cone = sorted(set(cone) | set(vlib.module_deps(v)))
        nobl, names = vlib.count_obligations(cone)
        failed_files = sorted(set(f[0] for f in build["failed"]))
        failed_obl = 0
        if not build["ok"]:
            for f, line, msg in build["failed"]:
                lem = self._lemma_at(f, line)
                self.broken.append(Broken("proof", "%s:%s %s" % (f, line, lem), msg))
            if not build["failed"]:
                self.broken.append(Broken("proof", "build", build["log"][-1500:]))
            # obligations in files that did not compile (or depend on them) count as undischarged
            notbuilt = [c for c in cone if not os.path.exists(os.path.join(COQ, c + "o"))
                        or os.path.getmtime(os.path.join(COQ, c + "o")) < os.path.getmtime(os.path.join(COQ, c))]
            failed_obl = sum(1 for n in names if n.split(":")[0] in notbuilt) or 1
        forb = vlib.forbidden_scan(cone)
        for b in forb:
            self.broken.append(Broken("forbidden", b, "forbidden construct in the development"))
        thms = vlib.theorem_names(props_v)
        assum = {}
        if build["ok"]:
            ok, assum, log = vlib.print_assumptions(self.props_module, thms, self.work)
            if not ok:
                self.broken.append(Broken("assumptions", "Print Assumptions failed", log))
            for mod, v in zip(self.extra_props, extra_v):
                t2 = vlib.theorem_names(v)
                ok, a2, log = vlib.print_assumptions(mod, t2, self.work)
                if not ok:
                    self.broken.append(Broken("assumptions", "Print Assumptions failed for " + mod, log))
                assum.update(a2)
                thms = thms + t2
            for t in thms:
                txt = assum.get(t, "")
                if "Closed under the global context" in txt:
                    continue
                axs = re.findall(r"^([A-Za-z_][\w.']*)\s*:", txt, re.M)
                extra = [a for a in axs if a.split(".")[-1] not in self.allowed_axioms]
                if extra or not axs:
                    self.broken.append(Broken("assumptions", t, "depends on: " + txt[:500]))
        cov["obligations"] = nobl
        cov["discharged"] = max(0, nobl - failed_obl) if not build["ok"] else nobl
        cov["checker_cmd"] = "make -f Makefile.coq -k %s (coqc 8.16.1, full .vo build) + Print Assumptions on %s" % (" ".join([props_v + "o"] + [v + "o" for v in extra_v]), ", ".join(thms))
        cov["theorems"] = thms
        cov["print_assumptions"] = assum
        cov["proof_build_wall_s"] = build["wall_s"]
        cov["cone_files"] = sorted(cone)
        cov["trusted_base"] = self.trusted_base
        # ---- tie 2: correspondence
        try:
            corr = self.correspond() or {}
        except vlib.BuildError as e:
            corr = {"evaluations": 0, "distinct_nontrivial": 0, "rule": "harness did not build", "samples": []}
            self.broken.append(Broken("build", "harness/implementation build", str(e)[-2000:]))
        except Exception:
            corr = {"evaluations": 0, "distinct_nontrivial": 0, "rule": "correspondence crashed", "samples": []}
            self.broken.append(Broken("correspondence", "harness crashed", traceback.format_exc()[-2000:]))
        cov.update(corr)
        # ---- direct property tests + search
        viols = []
        try:
            viols += self.direct() or []
        except vlib.BuildError as e:
            self.broken.append(Broken("build", "implementation build (direct)", str(e)[-2000:]))
        except Exception:
            self.broken.append(Broken("direct", "direct test crashed", traceback.format_exc()[-2000:]))
        if self.broken:
            try:
                found = self.search() or []
            except Exception:
                found = []
                self.notes.append("search crashed: " + traceback.format_exc()[-1500:])
            viols += found
        # ---- known findings
        kf = vlib.known_findings()

        def known_entry(v):
            for k in kf.get("known", []):
                if k["property"] == self.pid and re.search(k["key"], v.key):
                    return k
            return None
        # something is broken and no NEW concrete failing input was found: the property is no longer shown to hold
        # (a known finding must not mask this)
        if self.broken and not any(v.found_input and known_entry(v) is None for v in viols):
            viols.append(Violation(
                "unproved:" + ";".join(sorted(set(b.kind + ":" + b.what.split(" ")[0] for b in self.broken)))[:300],
                "no longer shown to hold: " + "; ".join("%s %s" % (b.kind, b.what) for b in self.broken[:6]),
                {"broken": [b.as_dict() for b in self.broken]}, found_input=False))
        nviol = 0
        seen_keys = set()
        for v in viols:
            if v.key in seen_keys:
                continue
            seen_keys.add(v.key)
            known = known_entry(v)
            if known:
                print("KNOWN-FINDING: property=%s %s" % (self.pid, known["what"]))
                continue
            nviol += 1
            payload = dict(v.payload)
            payload.update({"property": self.pid, "key": v.key, "summary": v.summary,
                            "broken": [b.as_dict() for b in self.broken], "seed": self.seed, "tier": self.tier})
            path = vlib.write_replay(self.pid, "violation_%d.json" % nviol, payload)
            print("VIOLATION property=%s replay=%s%s" % (self.pid, path, "" if v.found_input else " no-failing-input-found"))
            print("  " + v.summary[:400])
        cov["broken"] = [b.as_dict() for b in self.broken]
        cov["notes"] = self.notes
        if "evaluations" not in cov:
            cov["evaluations"] = 0
        vlib.write_evidence(self.pid, self.tier, self.seed, self.level, cov, self.assumptions,
                            time.time() - t0, nviol)
        print("%s: tier=%s seed=%d obligations=%d discharged=%d evaluations=%s nontrivial=%s violations=%d wall=%.1fs" % (
            self.pid, self.tier, self.seed, cov["obligations"], cov["discharged"], cov.get("evaluations"),
            cov.get("distinct_nontrivial"), nviol, time.time() - t0))
        return 1 if nviol else 0

    def _lemma_at(self, relv, line):
        try:
            lines = open(os.path.join(COQ, relv)).read().split("\n")
        except Exception:
            return ""
        for i in range(min(line, len(lines)) - 1, -1, -1):
            m = re.match(r"\s*(Lemma|Theorem|Corollary|Example|Fact|Definition|Fixpoint)\s+([\w']+)", lines[i])
            if m:
                return "(%s %s)" % (m.group(1), m.group(2))
        return ""


def main(argv):
    import importlib
    if len(argv) < 2:
        print("usage: check <Cxx> [--tier quick|thorough] [--replay file]")
        return 2
    pid = argv[1]
    tier = os.environ.get("VERIF_TIER", "quick")
    replay = None
    i = 2
    while i < len(argv):
        if argv[i] == "--tier":
            tier = argv[i + 1]
            i += 2
        elif argv[i] == "--replay":
            replay = argv[i + 1]
            i += 2
        else:
            i += 1
    seed = int(os.environ.get("VERIF_SEED", "1"))
    sys.path.insert(0, os.path.join(VERIF, "checks"))
    mod = importlib.import_module(pid.lower())
    chk = mod.Check(tier, seed)
    if replay:
        return chk.replay(replay)
    return chk.run()
