#!/usr/bin/env python3
"""Translator plugin for C12 (area Lock): /repo/src/{process,compress,expand,signals,main}.c
-> coq/Gen/LockProg.v.

Transcription only.  The five files are parsed with
    clang -fsyntax-only -Xclang -ast-dump=json <vlib.BASE_DEFS>
WITHOUT -DKJN_LBZIP2_VERIF (the verification hooks are not part of the program that
is analysed) and without -DNDEBUG (assert() operands are kept: they are executed in
the upstream Debug build, and reading a shared variable in an assert is an access).

For every function a structured term of

  stmt ::= Skip | Seq s s | If s s | IfMain s s | Loop s | Break | Continue
         | Return | NoReturn | Lock m | Unlock m | Wait m | Rd v site | Wr v site
         | Call f | CallAny [f..] | Create | Join last

is emitted.  Conditions are dropped, their reads kept.  Rules (all syntactic):

* `while (c) b`  = Loop (c; If Break Skip; b)     `do b while (c)` = Loop (b; c; If Break Skip)
  `for (i;c;n) b` = i; Loop (c; If Break Skip; b; n)     Loop is an endless loop left by Break.
  `switch` = Loop (choice of fall-through chains; Break)   (a `break` in it leaves this Loop)
  goto/labels: the function is emitted as unsupported (None); reaching it makes the check fail.
* a read is an lvalue-to-rvalue conversion of a global lvalue, a write an assignment /
  ++ / -- / compound assignment to it.  A member of a global struct is its own
  variable `g.f` (C11 3.14: distinct members are distinct memory locations); array
  elements count as the array; a whole-struct access is an access to every leaf.
* an access through a pointer is an access to the heap class named after the
  pointee (`heap:expand.c:in_blk.ref_count`, `heap:void`), unless the pointer is a
  parameter and the argument at the call site is syntactically `&global...` or
  `&local...`: functions are specialised per such binding (`xempty<set=signals.c:blocked>`).
* `&global` passed to a function outside the five files counts as a write (read if the
  parameter points to const) of every leaf of the global at the call site.
* pthread_mutex_lock/unlock(&M) -> Lock/Unlock M, pthread_cond_wait(&C,&M) -> Wait M,
  pthread_cond_signal/broadcast -> Skip, flockfile/funlockfile(stderr) -> Lock/Unlock
  stdio:stderr, pthread_create -> Create, pthread_join -> Join, calls to functions with
  __attribute__((noreturn)) are followed by NoReturn.
* `if (pthread_equal(pthread_self(), main_thread))` -> IfMain.
* indirect calls through members of struct task / struct process / struct thread_entry
  -> CallAny of the functions named at that member in all static initialisers.
* variables of libc (stderr, errno) are not program variables (trusted base).

Also emitted: the variable table with qualifiers, the thread-class table (derived from
the xcreate(&X_thread_entry) sites and the handlers installed with xaction), the
scenarios (bracket functions = innermost functions reaching both a create and a join),
the create/join sites.
"""
import json
import os
import re
import subprocess
import sys

FILES = ["process.c", "compress.c", "expand.c", "signals.c", "main.c"]
BASE_DEFS = ["-D_XOPEN_SOURCE=700", "-D_FILE_OFFSET_BITS=64", '-DPACKAGE_NAME="lbzip2"',
             '-DPACKAGE_VERSION="devel"', "-std=c99"]


class Unsupported(Exception):
    pass


# --------------------------------------------------------------------------
# AST loading, location resolution
# --------------------------------------------------------------------------
CACHE = os.path.join(os.path.dirname(os.path.dirname(os.path.abspath(__file__))), ".work", "cache", "lock_ast")


def clang_ast(path):
    """JSON AST of one translation unit.  The clang output is cached under
    .work/cache/lock_ast keyed on the digest of the file, of every header next to it
    and of the flags (content-addressed, so never stale); clang writes to a file
    (17 MB through a pipe is slow on a loaded machine)."""
    import glob
    import hashlib
    h = hashlib.sha256()
    h.update(" ".join(BASE_DEFS).encode())
    h.update(open(path, "rb").read())
    for hd in sorted(glob.glob(os.path.join(os.path.dirname(path), "*.h"))):
        h.update(hd.encode())
        h.update(open(hd, "rb").read())
    h.update(os.path.realpath(path).encode())
    key = os.path.join(CACHE, "%s-%s.pruned.json" % (os.path.basename(path), h.hexdigest()[:24]))
    if os.path.exists(key):
        try:
            with open(key) as f:
                d = json.load(f)
            os.utime(key, None)
            return d
        except Exception:
            pass
    os.makedirs(CACHE, exist_ok=True)
    tmp = key + ".tmp%d" % os.getpid()
    with open(tmp, "wb") as f:
        p = subprocess.run(["clang", "-fsyntax-only", "-Xclang", "-ast-dump=json"] + BASE_DEFS + ["-w", path],
                           stdout=f, stderr=subprocess.PIPE, timeout=300)
    if p.returncode != 0:
        os.unlink(tmp)
        raise Unsupported("clang failed on %s: %s" % (path, p.stderr.decode()[-500:]))
    with open(tmp) as f:
        d = json.load(f)
    os.unlink(tmp)
    # make locations explicit, then keep only the declarations written in the repo
    # (system-header declarations are referenced by name/type from the uses)
    resolve_locs(d, path)
    srcdir = os.path.dirname(os.path.realpath(path)) + os.sep
    d["inner"] = [n for n in d.get("inner", [])
                  if (node_pos(n)[0] is not None and os.path.realpath(node_pos(n)[0]).startswith(srcdir))]
    with open(tmp, "w") as f:
        json.dump(d, f)
    os.replace(tmp, key)
    # keep the cache small
    def _mtime(x):
        try:
            return os.path.getmtime(x)
        except OSError:             # pruned by a concurrent run
            return 0
    ents = sorted(glob.glob(os.path.join(CACHE, "*.json")), key=_mtime)
    for old in ents[:-25]:
        try:
            os.unlink(old)
        except OSError:
            pass
    return d


def resolve_locs(root, mainfile):
    """clang omits file/line when unchanged from the previously printed location;
    walk in print order and make every bare location explicit."""
    st = {"file": mainfile, "line": 0}

    def bare(d):
        if "file" in d:
            st["file"] = d["file"]
        if "line" in d:
            st["line"] = d["line"]
        d["_file"] = st["file"]
        d["_line"] = st["line"]

    def walk(x):
        if isinstance(x, dict):
            if "spellingLoc" in x or "expansionLoc" in x:
                for k in ("spellingLoc", "expansionLoc"):
                    if k in x:
                        bare(x[k])
                return
            if "offset" in x and ("col" in x or "line" in x):
                bare(x)
                return
            for k, v in x.items():
                if k in ("loc", "range", "inner", "begin", "end"):
                    walk(v)
        elif isinstance(x, list):
            for v in x:
                walk(v)
    walk(root)


def node_pos(n):
    """(file, line) of a node: expansion location of range.begin (or loc)."""
    for key in ("range", "loc"):
        d = n.get(key)
        if not d:
            continue
        if key == "range":
            d = d.get("begin", {})
        if "expansionLoc" in d:
            d = d["expansionLoc"]
        if "_line" in d:
            return d["_file"], d["_line"]
    return None, 0


def strip_quals(t):
    t = re.sub(r"\b(const|volatile|restrict)\b", "", t)
    return re.sub(r"\s+", " ", t).strip()


def is_pointer_type(t):
    t = t.strip()
    return t.endswith("*") or t.endswith("*const") or t.endswith("*restrict") or bool(re.search(r"\*\s*(const|restrict|volatile|\s)*$", t))


def pointee_type(t):
    """type string of *p for p : t"""
    t = t.strip()
    m = re.match(r"^(.*)\*\s*(?:const|restrict|volatile|\s)*$", t)
    if m:
        return m.group(1).strip()
    m = re.match(r"^(.*?)\s*\[[^\]]*\]$", t)
    if m:
        return m.group(1).strip()
    return t


def pointee_is_const(t):
    return bool(re.search(r"\bconst\b", pointee_type(t)))


# --------------------------------------------------------------------------
class TU:
    def __init__(self, repo, fname):
        self.fname = fname
        self.path = os.path.join(repo, "src", fname)
        self.ast = clang_ast(self.path)       # locations already resolved
        self.decl = {}          # id -> info dict for VarDecl / FunctionDecl
        self.records = {}       # record key -> [(field, type)]
        self.funcs = {}         # qualified name -> FunctionDecl node (with body)


class Model:
    def __init__(self, repo):
        self.repo = repo
        self.srcdir = os.path.realpath(os.path.join(repo, "src"))
        from concurrent.futures import ThreadPoolExecutor
        with ThreadPoolExecutor(max_workers=5) as ex:
            self.tus = list(ex.map(lambda f: TU(repo, f), FILES))
        self.globals = {}       # qualified var name -> info
        self.records = {}       # record name -> [(field, typestr)]
        self.func_nodes = {}    # qualified fname -> (tu, node)
        self.func_info = {}     # qualified fname -> {file,line,static,noreturn}
        self.init_funcs = {}    # (record, field) -> set of qualified function names
        self.entry_of = {}      # qualified global of type struct thread_entry -> entry function
        self.instances = {}     # instance name -> body (stmt) or None
        self.inst_base = {}     # instance name -> base function
        self.worklist = []
        self.mutexes = []
        self.libc_ignored = {}
        self.handlers = set()
        self.create_sites = []
        self.join_sites = []
        self.ifmain_sites = []
        self.addr_escapes = []
        self.counts = {}        # base function -> {Lock,Unlock,Wait,Rd,Wr,Create,Join}
        for tu in self.tus:
            self.index_tu(tu)

    # ---- naming -----------------------------------------------------------
    def in_repo(self, f):
        return f is not None and os.path.realpath(f).startswith(self.srcdir + os.sep)

    def is_main_file(self, tu, f):
        return f is not None and os.path.realpath(f) == os.path.realpath(tu.path)

    def record_key(self, tu, n):
        f, line = node_pos(n)
        name = n.get("name")
        if name:
            if self.is_main_file(tu, f):
                return "%s:%s" % (tu.fname, name)
            return name
        return "anon@%s:%d" % (os.path.basename(f or "?"), line)

    def record_of_type(self, tu, t):
        """record key for a type string such as 'struct in_blk' / 'const struct process' /
        'struct (unnamed struct at /repo/src/process.c:302:8)'; None if not a repo struct."""
        t = strip_quals(t)
        t = re.sub(r"(\s*\[[^\]]*\])+$", "", t).strip()      # array of struct: elements count as the array
        m = re.match(r"^struct \(unnamed(?: struct)? at ([^:]+):(\d+):\d+\)$", t)
        if m:
            k = "anon@%s:%s" % (os.path.basename(m.group(1)), m.group(2))
            return k if k in tu.records else None
        m = re.match(r"^struct (\w+)$", t)
        if m:
            for k in ("%s:%s" % (tu.fname, m.group(1)), m.group(1)):
                if k in tu.records:
                    return k
        return None

    # ---- indexing ---------------------------------------------------------
    def index_tu(self, tu):
        for n in tu.ast.get("inner", []):
            self.index_decl(tu, n, None)

    def index_decl(self, tu, n, infunc):
        k = n.get("kind")
        f, line = node_pos(n)
        if k == "RecordDecl" and n.get("completeDefinition") and self.in_repo(f):
            key = self.record_key(tu, n)
            fields = []
            for c in n.get("inner", []):
                if c.get("kind") == "FieldDecl":
                    fields.append((c.get("name"), c["type"].get("desugaredQualType", c["type"]["qualType"])))
                elif c.get("kind") == "RecordDecl":
                    self.index_decl(tu, c, infunc)
            tu.records[key] = fields
            self.records[key] = fields
        elif k == "VarDecl":
            self.index_var(tu, n, infunc)
        elif k == "FunctionDecl":
            name = n["name"]
            static = n.get("storageClass") == "static"
            q = ("%s:%s" % (tu.fname, name)) if (static and self.in_repo(f)) else name
            has_body = any(c.get("kind") == "CompoundStmt" for c in n.get("inner", []))
            info = {"kind": "func", "name": q, "base": name, "file": f, "line": line, "static": static,
                    "noreturn": "noreturn" in n["type"]["qualType"], "type": n["type"]["qualType"],
                    "params": [c for c in n.get("inner", []) if c.get("kind") == "ParmVarDecl"]}
            tu.decl[n["id"]] = info
            if has_body and self.is_main_file(tu, f):
                tu.funcs[q] = n
                self.func_nodes[q] = (tu, n)
                self.func_info[q] = info
                self.counts[q] = dict.fromkeys(["Lock", "Unlock", "Wait", "Rd", "Wr", "Create", "Join", "Call", "CallAny"], 0)
                # static locals
                self.index_locals(tu, n, q)

    def index_locals(self, tu, n, fq):
        for c in n.get("inner", []):
            if not isinstance(c, dict):
                continue
            if c.get("kind") == "VarDecl":
                self.index_var(tu, c, fq)
            elif c.get("kind") == "RecordDecl":
                self.index_decl(tu, c, fq)
            self.index_locals(tu, c, fq)

    def index_var(self, tu, n, infunc):
        f, line = node_pos(n)
        name = n.get("name")
        sc = n.get("storageClass")
        ty = n["type"]
        qt = ty["qualType"]
        dq = ty.get("desugaredQualType", qt)
        if n.get("kind") == "ParmVarDecl":
            return
        if infunc is not None:
            if sc != "static" and sc != "extern":
                tu.decl[n["id"]] = {"kind": "local", "name": name, "type": dq}
                return
            q = "%s:%s.%s" % (tu.fname, infunc.split(":")[-1], name) if sc == "static" else name
        else:
            if not self.in_repo(f):
                tu.decl[n["id"]] = {"kind": "libc", "name": name, "type": dq}
                return
            q = ("%s:%s" % (tu.fname, name)) if sc == "static" else name
        info = self.globals.get(q)
        is_def = sc != "extern"
        if info is None:
            info = {"kind": "global", "name": q, "type": qt, "dtype": dq, "file": None, "line": 0,
                    "const": bool(re.search(r"\bconst\b", dq.split("*")[-1] if "*" in dq else dq)) and not is_pointer_type(dq)
                    or bool(re.search(r"\*\s*const\b", dq)),
                    "volatile": "volatile" in qt,
                    "sigatomic": ("volatile" in qt and "sig_atomic_t" in qt),
                    "static": sc == "static", "local_static": infunc is not None,
                    "record": None, "defined_in": None, "init": n.get("init") is not None}
            self.globals[q] = info
        if is_def or info["file"] is None:
            info["file"], info["line"] = f, line
        if is_def:
            info["defined_in"] = tu.fname
        rec = self.record_of_type(tu, dq)
        if rec:
            info["record"] = rec
        tu.decl[n["id"]] = info
        # static initialisers naming functions: struct task / process / thread_entry tables
        for c in n.get("inner", []):
            if c.get("kind") == "InitListExpr":
                self.index_init(tu, c, q)

    def index_init(self, tu, n, varq):
        t = n["type"].get("desugaredQualType", n["type"]["qualType"])
        rec = None if t.rstrip().endswith("]") else self.record_of_type(tu, t)    # array: descend into the elements
        kids = [c for c in n.get("inner", []) if isinstance(c, dict) and c.get("kind")]
        if rec:
            fields = tu.records[rec]
            for i, c in enumerate(kids):
                if i >= len(fields):
                    break
                fn = self.func_ref(tu, c)
                if fn:
                    self.init_funcs.setdefault((rec, fields[i][0]), set()).add(fn)
                    if rec.endswith("thread_entry"):
                        self.entry_of[varq] = fn
                elif c.get("kind") == "InitListExpr":
                    self.index_init(tu, c, varq)
        else:
            for c in kids:
                if c.get("kind") == "InitListExpr":
                    self.index_init(tu, c, varq)

    def func_ref(self, tu, e):
        while e.get("kind") in ("ImplicitCastExpr", "ParenExpr", "CStyleCastExpr") and e.get("inner"):
            e = e["inner"][0]
        if e.get("kind") == "UnaryOperator" and e.get("opcode") == "&":
            return self.func_ref(tu, e["inner"][0])
        if e.get("kind") == "DeclRefExpr" and e["referencedDecl"]["kind"] == "FunctionDecl":
            return self.fname_of(tu, e["referencedDecl"])
        return None

    def fname_of(self, tu, ref):
        info = tu.decl.get(ref["id"])
        if info and info["kind"] == "func":
            # a static function may be declared before it is defined: same qualified name
            return info["name"]
        return ref["name"]

    # ---- leaves -----------------------------------------------------------
    def leaves_of_type(self, rec, prefix, depth=0):
        out = []
        for fld, t in self.records.get(rec, []):
            sub = None
            ts = strip_quals(t)
            m = re.match(r"^struct (\w+)$", ts)
            if m:
                for k in (rec.split(":")[0] + ":" + m.group(1) if ":" in rec else None, m.group(1)):
                    if k and k in self.records:
                        sub = k
                        break
            m2 = re.match(r"^struct \(unnamed(?: struct)? at ([^:]+):(\d+):\d+\)$", ts)
            if m2:
                k = "anon@%s:%s" % (os.path.basename(m2.group(1)), m2.group(2))
                if k in self.records:
                    sub = k
            if sub and depth < 6:
                out += self.leaves_of_type(sub, prefix + [fld], depth + 1)
            else:
                out.append(".".join(prefix + [fld]))
        return out

    def leaves(self, path):
        """all leaf variable names below a global path (list of components)"""
        g = self.globals[path[0]]
        rec = g["record"]
        cur = [path[0]]
        for comp in path[1:]:
            nxt = None
            if rec:
                for fld, t in self.records.get(rec, []):
                    if fld == comp:
                        ts = strip_quals(t)
                        m = re.match(r"^struct (\w+)$", ts)
                        if m:
                            for k in ((rec.split(":")[0] + ":" + m.group(1)) if ":" in rec else None, m.group(1)):
                                if k and k in self.records:
                                    nxt = k
                                    break
                        m2 = re.match(r"^struct \(unnamed(?: struct)? at ([^:]+):(\d+):\d+\)$", ts)
                        if m2:
                            k = "anon@%s:%s" % (os.path.basename(m2.group(1)), m2.group(2))
                            if k in self.records:
                                nxt = k
            cur.append(comp)
            rec = nxt
        if rec:
            return self.leaves_of_type(rec, cur)
        return [".".join(cur)]


# --------------------------------------------------------------------------
# statement / expression translation (one function instance)
# --------------------------------------------------------------------------
SKIP = ("Skip",)


def seq(xs):
    xs = [x for x in xs if x != SKIP]
    if not xs:
        return SKIP
    r = xs[-1]
    for x in reversed(xs[:-1]):
        r = ("Seq", x, r)
    return r


def choice(xs):
    if not xs:
        return SKIP
    r = xs[-1]
    for x in reversed(xs[:-1]):
        r = ("If", x, r)
    return r


CASTS = ("ImplicitCastExpr", "CStyleCastExpr", "ParenExpr", "ConstantExpr")


class FnTrans:
    def __init__(self, model, tu, fq, node, bindings):
        self.m = model
        self.tu = tu
        self.fq = fq
        self.node = node
        self.bind = bindings          # param name -> ('G', path) | ('L',)
        self.cnt = model.counts[fq]
        self.count_on = True

    # ---- helpers
    def site(self, n):
        f, line = node_pos(n)
        if line:
            self.last_line = line
        return (self.fq, getattr(self, "last_line", 0))

    def bump(self, k):
        if self.count_on:
            self.cnt[k] += 1

    def acc(self, w, tgt, n):
        """list of Rd/Wr statements for an access to target tgt"""
        if tgt is None or tgt[0] in ("L", "N"):
            return []
        s = self.site(n)
        if tgt[0] == "G":
            self.bump("Wr" if w else "Rd")
            return [("Wr" if w else "Rd", v, s) for v in self.m.leaves(tgt[1])]
        if tgt[0] == "H":
            self.bump("Wr" if w else "Rd")
            name = "heap:" + tgt[1] + ("." + ".".join(tgt[2]) if tgt[2] else "")
            return [("Wr" if w else "Rd", name, s)]
        raise Unsupported("target %r" % (tgt,))

    def heap_class(self, tstr):
        """heap class name for a pointee type string"""
        t = strip_quals(tstr)
        rec = self.m.record_of_type(self.tu, t)
        if rec:
            return rec
        t = re.sub(r"^struct \(unnamed.*\)$", "anon", t)
        return t.replace(" ", "_")

    def etype(self, e):
        return e["type"].get("desugaredQualType", e["type"]["qualType"])

    # ---- pointee of a pointer-valued expression (target only, no actions)
    def pointee(self, p):
        k = p.get("kind")
        if k == "CStyleCastExpr" and p.get("castKind") == "NullToPointer":
            return ("N",)
        if k in ("ParenExpr", "CStyleCastExpr", "ConstantExpr"):
            return self.pointee(p["inner"][0])
        if k == "ImplicitCastExpr":
            if p.get("castKind") == "ArrayToPointerDecay":
                return self.lv(p["inner"][0])[1]
            if p.get("castKind") == "NullToPointer":
                return ("N",)
            if p.get("castKind") in ("LValueToRValue", "BitCast", "NoOp", "IntegralToPointer"):
                inner = p["inner"][0]
                if p.get("castKind") == "LValueToRValue":
                    # pointer loaded from an lvalue: only parameters carry a binding
                    q = inner
                    while q.get("kind") == "ParenExpr":
                        q = q["inner"][0]
                    if q.get("kind") == "DeclRefExpr" and q["referencedDecl"]["kind"] == "ParmVarDecl":
                        b = self.bind.get(q["referencedDecl"]["name"])
                        if b:
                            return b
                    return ("H", self.heap_class(pointee_type(self.etype(p))), [])
                return self.pointee(inner)
            return ("H", self.heap_class(pointee_type(self.etype(p))), [])
        if k == "UnaryOperator":
            op = p.get("opcode")
            if op == "&":
                return self.lv(p["inner"][0])[1]
            if op in ("++", "--"):
                q = p["inner"][0]
                while q.get("kind") == "ParenExpr":
                    q = q["inner"][0]
                if q.get("kind") == "DeclRefExpr" and q["referencedDecl"]["kind"] == "ParmVarDecl":
                    b = self.bind.get(q["referencedDecl"]["name"])
                    if b:
                        return b
        if k == "BinaryOperator" and p.get("opcode") in ("+", "-"):
            for sub in p["inner"]:
                if is_pointer_type(self.etype(sub)) or "[" in self.etype(sub):
                    return self.pointee(sub)
        if k == "CallExpr":
            fn = self.m.func_ref(self.tu, p["inner"][0])
            if fn == "__errno_location":
                return ("L",)
        return ("H", self.heap_class(pointee_type(self.etype(p))), [])

    # ---- lvalues: (actions, target)
    def lv(self, e):
        k = e.get("kind")
        if k in ("ParenExpr",):
            return self.lv(e["inner"][0])
        if k == "DeclRefExpr":
            ref = e["referencedDecl"]
            if ref["kind"] == "ParmVarDecl":
                return [], ("L",)
            if ref["kind"] == "VarDecl":
                info = self.tu.decl.get(ref["id"])
                if info is None:
                    # declared outside the repo (system header): libc's variable
                    info = {"kind": "libc", "name": ref.get("name")}
                if info["kind"] == "local":
                    return [], ("L",)
                if info["kind"] == "libc":
                    self.m.libc_ignored[info["name"]] = self.m.libc_ignored.get(info["name"], 0) + 1
                    return [], ("L",)
                return [], ("G", [info["name"]])
            if ref["kind"] in ("FunctionDecl", "EnumConstantDecl"):
                return [], ("L",)
            raise Unsupported("DeclRefExpr to %s" % ref["kind"])
        if k == "MemberExpr":
            base = e["inner"][0]
            fld = e["name"]
            if e.get("isArrow"):
                pre = self.rv(base)
                t0 = self.pointee(base)
            else:
                if base.get("valueCategory") == "lvalue":
                    pre, t0 = self.lv(base)
                else:
                    pre, t0 = self.rv(base), ("L",)
            if t0[0] == "G":
                return pre, ("G", t0[1] + [fld])
            if t0[0] == "H":
                return pre, ("H", t0[1], t0[2] + [fld])
            return pre, ("L",)
        if k == "ArraySubscriptExpr":
            base, idx = e["inner"][0], e["inner"][1]
            pre = self.rv(base) + self.rv(idx)
            t0 = self.pointee(base)
            if t0[0] == "H" and not t0[2]:
                # element of an array reached through a pointer: class of the element type
                t0 = ("H", self.heap_class(self.etype(e)), [])
            return pre, t0
        if k == "UnaryOperator":
            op = e.get("opcode")
            if op == "*":
                sub = e["inner"][0]
                pre = self.rv(sub)
                t0 = self.pointee(sub)
                if t0[0] == "H" and not t0[2]:
                    t0 = ("H", self.heap_class(self.etype(e)), [])
                return pre, t0
            if op == "__extension__":
                return self.lv(e["inner"][0])
        if k in ("CompoundLiteralExpr", "StringLiteral", "PredefinedExpr"):
            return [], ("L",)
        raise Unsupported("lvalue %s in %s" % (k, self.fq))

    # ---- rvalues: list of actions
    def rv(self, e):
        k = e.get("kind")
        if not k:
            return []
        if k == "ImplicitCastExpr":
            ck = e.get("castKind")
            sub = e["inner"][0]
            if ck == "LValueToRValue":
                pre, tgt = self.lv(sub)
                return pre + self.acc(False, tgt, e)
            if ck in ("ArrayToPointerDecay", "FunctionToPointerDecay"):
                if sub.get("valueCategory") == "lvalue":
                    return self.lv(sub)[0]
                return self.rv(sub)
            return self.rv(sub)
        if k in ("ParenExpr", "CStyleCastExpr", "ConstantExpr"):
            return self.rv(e["inner"][0])
        if k in ("IntegerLiteral", "StringLiteral", "CharacterLiteral", "FloatingLiteral", "UnaryExprOrTypeTraitExpr",
                 "ImplicitValueInitExpr", "OffsetOfExpr", "PredefinedExpr", "GNUNullExpr"):
            return []
        if k == "DeclRefExpr":
            if e.get("valueCategory") == "lvalue":
                return self.lv(e)[0]
            return []
        if k in ("MemberExpr", "ArraySubscriptExpr"):
            if e.get("valueCategory") == "lvalue":
                return self.lv(e)[0]          # discarded / address computation: no access
            return self.rv(e["inner"][0]) + (self.rv(e["inner"][1]) if len(e["inner"]) > 1 else [])
        if k == "UnaryOperator":
            op = e.get("opcode")
            sub = e["inner"][0]
            if op == "&":
                pre, tgt = self.lv(sub)
                if tgt[0] == "G" and not getattr(self, "_in_arg", False):
                    g = self.m.globals[tgt[1][0]]
                    if not g["const"]:
                        self.m.addr_escapes.append((tgt[1][0], self.site(e)))
                return pre
            if op in ("++", "--"):
                pre, tgt = self.lv(sub)
                return pre + self.acc(False, tgt, e) + self.acc(True, tgt, e)
            if op == "*":
                return self.lv(e)[0]
            return self.rv(sub)
        if k == "CompoundAssignOperator":
            pre, tgt = self.lv(e["inner"][0])
            return pre + self.rv(e["inner"][1]) + self.acc(False, tgt, e) + self.acc(True, tgt, e)
        if k == "BinaryOperator":
            op = e.get("opcode")
            a, b = e["inner"]
            if op == "=":
                pre, tgt = self.lv(a)
                return pre + self.rv(b) + self.acc(True, tgt, e)
            if op in ("&&", "||"):
                rb = self.rv(b)
                return self.rv(a) + ([("If", seq(rb), SKIP)] if rb else [])
            return self.rv(a) + self.rv(b)
        if k == "ConditionalOperator":
            c, a, b = e["inner"]
            ra, rb = self.rv(a), self.rv(b)
            return self.rv(c) + ([("If", seq(ra), seq(rb))] if (ra or rb) else [])
        if k == "CallExpr":
            return self.call(e)
        if k == "StmtExpr":
            return [self.stmt(e["inner"][0])]
        if k in ("InitListExpr", "CompoundLiteralExpr", "VAArgExpr"):
            out = []
            for c in e.get("inner", []):
                out += self.rv(c)
            return out
        raise Unsupported("expression %s in %s" % (k, self.fq))

    # ---- calls
    def mutex_name(self, arg, what):
        self._in_arg = True
        try:
            t = self.pointee(arg)
        finally:
            self._in_arg = False
        if t[0] != "G":
            raise Unsupported("%s on something that is not a global mutex in %s" % (what, self.fq))
        nm = ".".join(t[1])
        if nm not in self.m.mutexes:
            self.m.mutexes.append(nm)
        return nm

    def call(self, e):
        callee = e["inner"][0]
        args = e["inner"][1:]
        fn = self.m.func_ref(self.tu, callee)
        out = []
        if fn is None:
            # indirect call: must go through a struct member
            c = callee
            while c.get("kind") in CASTS:
                c = c["inner"][0]
            if c.get("kind") != "MemberExpr":
                raise Unsupported("indirect call not through a struct member in %s" % self.fq)
            out += self.rv(callee)
            base = c["inner"][0]
            bt = self.etype(base)
            rec = self.m.record_of_type(self.tu, pointee_type(bt) if c.get("isArrow") else bt)
            fs = sorted(self.m.init_funcs.get((rec, c["name"]), []))
            if not fs:
                raise Unsupported("indirect call %s.%s: no static initialiser names a function (%s)" % (rec, c["name"], self.fq))
            for a in args:
                out += self.rv_arg(a)
            self.bump("CallAny")
            # every possible callee is entered without pointer bindings
            out.append(("CallAny", [self.m.instance(f, {}) for f in fs]))
            return out
        # direct call
        for i, a in enumerate(args):
            pass
        if fn in ("pthread_mutex_lock", "pthread_mutex_unlock"):
            nm = self.mutex_name(args[0], fn)
            k = "Lock" if fn.endswith("_lock") else "Unlock"
            self.bump(k)
            return [(k, nm)]
        if fn == "pthread_cond_wait":
            nm = self.mutex_name(args[1], fn)
            self.bump("Wait")
            return [("Wait", nm)]
        if fn in ("pthread_cond_signal", "pthread_cond_broadcast"):
            return []
        if fn in ("flockfile", "funlockfile"):
            a = args[0]
            while a.get("kind") in CASTS:
                a = a["inner"][0]
            if not (a.get("kind") == "DeclRefExpr" and a["referencedDecl"]["name"] == "stderr"):
                raise Unsupported("%s on something other than stderr" % fn)
            nm = "stdio:stderr"
            if nm not in self.m.mutexes:
                self.m.mutexes.append(nm)
            k = "Lock" if fn == "flockfile" else "Unlock"
            self.bump(k)
            return [(k, nm)]
        if fn == "pthread_create":
            for a in args:
                out += self.rv_arg(a)
            self.bump("Create")
            s = self.site(e)
            self.m.create_sites.append(s)
            return out + [("Create", s)]
        if fn == "pthread_join":
            for a in args:
                out += self.rv_arg(a)
            self.bump("Join")
            s = self.site(e)
            self.m.join_sites.append(s)
            return out + [("Join", s)]
        info = self.m.func_info.get(fn)
        if info is not None:
            # internal: specialise on pointer parameters bound to &global / &local
            params = info["params"]
            b = {}
            for i, a in enumerate(args):
                out += self.rv_arg(a)
                if i < len(params):
                    pt = params[i]["type"].get("desugaredQualType", params[i]["type"]["qualType"])
                    if is_pointer_type(pt) and "(*" not in pt:
                        self._in_arg = True
                        try:
                            t = self.pointee(a)
                        finally:
                            self._in_arg = False
                        if t[0] in ("G", "N") or (t[0] == "L" and strip_quals(pointee_type(pt)) != "char"):
                            b[params[i]["name"]] = t
                    elif "(*)(int)" in pt:
                        h = self.m.func_ref(self.tu, a)
                        if h and h in self.m.func_info:
                            self.m.handlers.add(h)
            self.bump("Call")
            out.append(("Call", self.m.instance(fn, b)))
            if info["noreturn"]:
                out.append(("NoReturn",))
            return out
        # external
        if fn.startswith("__builtin_va_"):
            return out
        ctype = self.etype(callee)
        ptypes = self.param_types(callee)
        for i, a in enumerate(args):
            out += self.rv_arg(a)
            at = self.etype(a)
            pt = ptypes[i] if i < len(ptypes) and ptypes[i] != "..." else at
            if is_pointer_type(at) and "(*" not in at:
                self._in_arg = True
                try:
                    t = self.pointee(a)
                finally:
                    self._in_arg = False
                w = not pointee_is_const(pt)
                if t[0] == "H" and t[1] in ("char", "void") and not w:
                    continue            # read-only strings / opaque read: format strings, names
                if t[0] == "H" and t[1] in ("FILE", "struct__IO_FILE", "struct___va_list_tag"):
                    continue            # stdio streams lock themselves (libc, trusted); va_list is a local
                out += self.acc(w, t, e)
            if "(*)(int)" in at or "(*)(int)" in pt:
                h = self.m.func_ref(self.tu, a)
                if h and h in self.m.func_info:
                    self.m.handlers.add(h)
        if "noreturn" in ctype:
            out.append(("NoReturn",))
        return out

    def param_types(self, callee):
        t = self.etype(callee)
        m = re.match(r"^.*?\(\*?\)?\((.*)\)(?:\s*__attribute__.*)?$", t)
        # qualType of a function: 'int (const sigset_t *, int)'
        m = re.search(r"\((?:\*\))?\(?(.*)\)", t)
        inner = t[t.find("(") + 1:t.rfind(")")]
        if inner.startswith("*)("):
            inner = inner[3:]
        depth = 0
        cur = ""
        out = []
        for ch in inner:
            if ch == "(":
                depth += 1
            elif ch == ")":
                depth -= 1
            if ch == "," and depth == 0:
                out.append(cur.strip())
                cur = ""
            else:
                cur += ch
        if cur.strip():
            out.append(cur.strip())
        return out

    def rv_arg(self, a):
        self._in_arg = True
        try:
            return self.rv(a)
        finally:
            self._in_arg = False

    # ---- statements
    def stmt(self, n):
        k = n.get("kind")
        if not k:
            return SKIP
        if k == "CompoundStmt":
            return seq([self.stmt(c) for c in n.get("inner", [])])
        if k == "DeclStmt":
            out = []
            for c in n.get("inner", []):
                if c.get("kind") == "VarDecl" and c.get("storageClass") != "static":
                    for i in c.get("inner", []):
                        if i.get("kind"):
                            out += self.rv(i)
            return seq(out)
        if k == "NullStmt":
            return SKIP
        if k == "IfStmt":
            kids = n["inner"]
            cond, then = kids[0], kids[1]
            els = kids[2] if len(kids) > 2 else None
            if self.is_main_test(cond):
                self.m.ifmain_sites.append(self.site(n))
                return seq(self.rv(cond) + [("IfMain", self.stmt(then), self.stmt(els) if els else SKIP)])
            return seq(self.rv(cond) + [("If", self.stmt(then), self.stmt(els) if els else SKIP)])
        if k == "WhileStmt":
            cond, body = n["inner"][0], n["inner"][-1]
            return ("Loop", seq(self.rv(cond) + [("If", ("Break",), SKIP), self.stmt(body)]))
        if k == "DoStmt":
            body, cond = n["inner"][0], n["inner"][1]
            if self.has_kind(body, "ContinueStmt", stop=("WhileStmt", "ForStmt", "DoStmt")):
                raise Unsupported("continue inside do-while in %s" % self.fq)
            return ("Loop", seq([self.stmt(body)] + self.rv(cond) + [("If", ("Break",), SKIP)]))
        if k == "ForStmt":
            init, _cv, cond, inc, body = n["inner"]
            if inc.get("kind") and self.has_kind(body, "ContinueStmt", stop=("WhileStmt", "ForStmt", "DoStmt")):
                raise Unsupported("continue inside for with increment in %s" % self.fq)
            pre = [self.stmt(init)] if init.get("kind") else []
            c = self.rv(cond) + [("If", ("Break",), SKIP)] if cond.get("kind") else []
            return seq(pre + [("Loop", seq(c + [self.stmt(body)] + (self.rv(inc) if inc.get("kind") else [])))])
        if k == "SwitchStmt":
            cond, body = n["inner"][0], n["inner"][-1]
            if self.has_kind(body, "ContinueStmt", stop=("WhileStmt", "ForStmt", "DoStmt")):
                raise Unsupported("continue inside switch in %s" % self.fq)
            segs = []
            has_default = False
            if body.get("kind") != "CompoundStmt":
                raise Unsupported("switch body is not a compound statement in %s" % self.fq)
            for c in body.get("inner", []):
                started = False
                while c.get("kind") in ("CaseStmt", "DefaultStmt"):
                    if c.get("kind") == "DefaultStmt":
                        has_default = True
                    if not started:
                        segs.append([])
                        started = True
                    c = c["inner"][-1]
                if not segs:
                    continue            # unreachable code before the first label
                segs[-1].append(self.stmt(c))
            chains = [seq([x for s in segs[i:] for x in s]) for i in range(len(segs))]
            if not has_default:
                chains.append(SKIP)
            return seq(self.rv(cond) + [("Loop", seq([choice(chains), ("Break",)]))])
        if k == "ReturnStmt":
            out = []
            for c in n.get("inner", []):
                out += self.rv(c)
            return seq(out + [("Return",)])
        if k == "BreakStmt":
            return ("Break",)
        if k == "ContinueStmt":
            return ("Continue",)
        if k in ("GotoStmt", "LabelStmt", "IndirectGotoStmt"):
            raise Unsupported("goto/label in %s" % self.fq)
        if k in ("CaseStmt", "DefaultStmt"):
            raise Unsupported("case label not at the top level of a switch body in %s" % self.fq)
        return seq(self.rv(n))

    def has_kind(self, n, kind, stop=()):
        if not isinstance(n, dict):
            return False
        if n.get("kind") == kind:
            return True
        for c in n.get("inner", []):
            if isinstance(c, dict) and c.get("kind") in stop:
                continue
            if self.has_kind(c, kind, stop):
                return True
        return False

    def is_main_test(self, cond):
        c = cond
        while c.get("kind") in CASTS:
            c = c["inner"][0]
        if c.get("kind") != "CallExpr" or self.m.func_ref(self.tu, c["inner"][0]) != "pthread_equal":
            return False
        a, b = c["inner"][1], c["inner"][2]
        while a.get("kind") in CASTS:
            a = a["inner"][0]
        while b.get("kind") in CASTS:
            b = b["inner"][0]
        if a.get("kind") == "CallExpr" and self.m.func_ref(self.tu, a["inner"][0]) == "pthread_self" and \
                b.get("kind") == "DeclRefExpr" and b["referencedDecl"]["name"] == "main_thread":
            return True
        return False


def _instance(self, fn, b):
    key = fn
    if b:
        key = fn + "<" + ",".join("%s=%s" % (p, ".".join(t[1]) if t[0] == "G" else ("null" if t[0] == "N" else "local")) for p, t in sorted(b.items())) + ">"
    if key not in self.instances:
        self.instances[key] = "pending"
        self.inst_base[key] = fn
        self.worklist.append((key, fn, b))
    return key


Model.instance = _instance


def translate(repo):
    m = Model(repo)
    # base instance of every function (so that every function gets a term)
    for fq in sorted(m.func_nodes):
        m.instance(fq, {})
    first = True
    while m.worklist:
        key, fn, b = m.worklist.pop(0)
        tu, node = m.func_nodes[fn]
        ft = FnTrans(m, tu, fn, node, b)
        ft.count_on = not b           # per-function counts from the unspecialised instance only
        body = [c for c in node["inner"] if c.get("kind") == "CompoundStmt"][0]
        try:
            m.instances[key] = ft.stmt(body)
        except Unsupported as ex:
            if "goto/label" in str(ex):
                m.instances[key] = None
                m.unsupported = getattr(m, "unsupported", {})
                m.unsupported[key] = str(ex)
            else:
                raise
    derive_threads(m)
    return m


# --------------------------------------------------------------------------
# thread classes, scenarios, last-join marking
# --------------------------------------------------------------------------
def calls_of(st, out):
    """callees in syntactic order"""
    if not isinstance(st, tuple):
        return
    k = st[0]
    if k in ("Seq", "If", "IfMain"):
        calls_of(st[1], out)
        calls_of(st[2], out)
    elif k == "Loop":
        calls_of(st[1], out)
    elif k == "Call":
        out.append(st[1])
    elif k == "CallAny":
        out.extend(st[1])


def events_of(m, st, out, stack):
    """create/join sites in syntactic (in-order, callees expanded) order"""
    if not isinstance(st, tuple):
        return
    k = st[0]
    if k in ("Seq", "If", "IfMain"):
        events_of(m, st[1], out, stack)
        events_of(m, st[2], out, stack)
    elif k == "Loop":
        events_of(m, st[1], out, stack)
    elif k in ("Create", "Join"):
        out.append((k, st[1]))
    elif k in ("Call", "CallAny"):
        for f in ([st[1]] if k == "Call" else st[1]):
            if f in stack:
                continue
            b = m.instances.get(f)
            if b:
                events_of(m, b, out, stack + [f])


def reach(m, roots):
    seen = set()
    todo = list(roots)
    while todo:
        f = todo.pop()
        if f in seen or f not in m.instances:
            continue
        seen.add(f)
        b = m.instances[f]
        cs = []
        if b:
            calls_of(b, cs)
        todo.extend(cs)
    return seen


def derive_threads(m):
    # thread classes: xcreate(&X) call sites where X : struct thread_entry {F}
    creators = {}            # entry function -> list of (creating function, in_loop)
    for tu in m.tus:
        for fq, node in tu.funcs.items():
            find_creates(m, tu, fq, node, False, creators)
    m.creators = creators
    cls = {}
    for entry, where in creators.items():
        nm = re.sub(r"_thread(_proc)?$|_proc$", "", entry.split(":")[-1])
        cls[nm] = {"name": nm, "entry": entry, "multi": any(l for _, l in where), "created_in": sorted(set(w for w, _ in where))}
    # which functions reach a create / a join
    direct_c = {f: any(e[0] == "Create" for e in flat_events(m.instances[f])) for f in m.instances if m.instances[f]}
    direct_j = {f: any(e[0] == "Join" for e in flat_events(m.instances[f])) for f in m.instances if m.instances[f]}
    rc, rj = {}, {}
    for f in m.instances:
        r = reach(m, [f])
        rc[f] = any(direct_c.get(g) for g in r)
        rj[f] = any(direct_j.get(g) for g in r)
    brackets = []
    for f in sorted(m.instances):
        if not (rc[f] and rj[f]) or m.inst_base[f] != f:
            continue
        cs = []
        calls_of(m.instances[f], cs)
        if any(rc.get(g) and rj.get(g) for g in cs):
            continue
        brackets.append(f)
    m.brackets = brackets
    # mark last joins
    last_sites = set()
    m.bracket_events = {}
    for bfn in brackets:
        ev = []
        events_of(m, m.instances[bfn], ev, [bfn])
        m.bracket_events[bfn] = ev
        if not ev or ev[-1][0] != "Join" or ev[0][0] != "Create":
            raise Unsupported("bracket function %s does not start with a create and end with a join: %r" % (bfn, ev))
        last_sites.add(ev[-1][1])
    for bfn in brackets:
        ev = m.bracket_events[bfn]
        for i, (k, s) in enumerate(ev):
            if s in last_sites and i != len(ev) - 1:
                raise Unsupported("join site %r is last in one bracket function but not in %s" % (s, bfn))
    m.last_join_sites = last_sites
    for key in list(m.instances):
        if m.instances[key]:
            m.instances[key] = mark_last(m.instances[key], last_sites)
    # scenarios: one per bracket function that is not itself a thread entry
    entries = {c["entry"]: c for c in cls.values()}
    m.classes = cls
    scen = []
    handlers = sorted(m.handlers)
    for bfn in brackets:
        if bfn in entries:
            continue
        specs = []
        specs.append({"name": "main", "entry": bfn, "multi": False, "is_main": True, "parent": None, "start_conc": False})

        def add_children(parent_idx, root):
            r = reach(m, [root])
            for c in sorted(cls.values(), key=lambda c: c["name"]):
                if any(w in [m.inst_base.get(g, g) for g in r] for w in c["created_in"]) and \
                        not any(s["name"] == c["name"] for s in specs):
                    specs.append({"name": c["name"], "entry": c["entry"], "multi": c["multi"], "is_main": False,
                                  "parent": parent_idx, "start_conc": c["entry"] not in brackets})
                    add_children(len(specs) - 1, c["entry"])
        add_children(0, bfn)
        for h in handlers:
            specs.append({"name": "handler", "entry": h, "multi": False, "is_main": False, "parent": None,
                          "start_conc": True, "handler": True})
        scen.append({"name": bfn.split(":")[-1], "specs": specs})
    m.scenarios = scen


def flat_events(st):
    out = []

    def go(s):
        if not isinstance(s, tuple):
            return
        if s[0] in ("Create", "Join"):
            out.append((s[0], s[1]))
        elif s[0] in ("Seq", "If", "IfMain"):
            go(s[1])
            go(s[2])
        elif s[0] == "Loop":
            go(s[1])
    go(st)
    return out


def mark_last(st, last):
    k = st[0]
    if k == "Join":
        return ("Join", st[1], st[1] in last)
    if k in ("Seq", "If", "IfMain"):
        return (k, mark_last(st[1], last), mark_last(st[2], last))
    if k == "Loop":
        return (k, mark_last(st[1], last))
    return st


def find_creates(m, tu, fq, n, in_loop, out):
    if not isinstance(n, dict):
        return
    k = n.get("kind")
    if k in ("ForStmt", "WhileStmt", "DoStmt"):
        in_loop = True
    if k == "CallExpr":
        fn = m.func_ref(tu, n["inner"][0])
        if fn is not None:
            for a in n["inner"][1:]:
                x = a
                while x.get("kind") in CASTS:
                    x = x["inner"][0]
                if x.get("kind") == "UnaryOperator" and x.get("opcode") == "&":
                    y = x["inner"][0]
                    if y.get("kind") == "DeclRefExpr" and y["referencedDecl"]["kind"] == "VarDecl":
                        info = tu.decl.get(y["referencedDecl"]["id"])
                        if info and info.get("kind") == "global" and info["name"] in m.entry_of:
                            out.setdefault(m.entry_of[info["name"]], []).append((fq, in_loop))
    for c in n.get("inner", []):
        find_creates(m, tu, fq, c, in_loop, out)


# --------------------------------------------------------------------------
# Coq output
# --------------------------------------------------------------------------
class Ids:
    def __init__(self):
        self.ids = {}
        self.names = []

    def get(self, name):
        if name not in self.ids:
            self.ids[name] = len(self.names) + 1
            self.names.append(name)
        return self.ids[name]


def coq_str(s):
    return '"' + s.replace('"', '""') + '"'


def emit(m):
    V, F, M, S = Ids(), Ids(), Ids(), Ids()
    for mu in m.mutexes:
        M.get(mu)
    root_of = {}
    for g in sorted(m.globals):
        for leaf in m.leaves([g]):
            V.get(leaf)
            root_of[leaf] = g
    for f in sorted(m.instances):
        F.get(f)

    def site(s):
        return S.get("%s:%d" % s)

    def st(s, ind):
        k = s[0]
        pad = " " * ind
        if k in ("Skip", "Break", "Continue", "Return", "NoReturn"):
            return k
        if k in ("Seq", "If", "IfMain"):
            # flatten right-nested Seq for readability
            return "(%s %s\n%s %s)" % (k, st(s[1], ind + 1), pad, st(s[2], ind + 1))
        if k == "Loop":
            return "(Loop %s)" % st(s[1], ind + 1)
        if k in ("Lock", "Unlock", "Wait"):
            return "(%s %d)" % (k, M.get(s[1]))
        if k in ("Rd", "Wr"):
            return "(%s %d %d)" % (k, V.get(s[1]), site(s[2]))
        if k == "Call":
            return "(Call %d)" % F.get(s[1])
        if k == "CallAny":
            return "(CallAny [%s])" % "; ".join(str(F.get(f)) for f in s[1])
        if k == "Create":
            return "Create"
        if k == "Join":
            return "(Join %s)" % ("true" if s[2] else "false")
        raise Unsupported("emit %r" % (s,))

    o = []
    o.append("From LBZ Require Import Lock.LockLang.\nLocal Open Scope positive_scope.\n")
    o.append("(* clang flags: %s ; KJN_LBZIP2_VERIF and NDEBUG not defined *)\n" % " ".join(BASE_DEFS))
    bodies = []
    for f in sorted(m.instances):
        b = m.instances[f]
        fid = F.get(f)
        if b is None:
            bodies.append("Definition f_%d : option stmt := None. (* %s : unsupported (goto) *)\n" % (fid, f))
        else:
            bodies.append("Definition f_%d : option stmt := Some (* %s *)\n %s.\n" % (fid, f, st(b, 1)))
    o.append("".join(bodies))
    o.append("Definition program : program := [\n  %s].\n" %
             ";\n  ".join("(%d, f_%d)" % (F.get(f), F.get(f)) for f in sorted(m.instances)))
    o.append("Definition fun_names : list (positive * string) := [\n  %s]%%string.\n" %
             ";\n  ".join("(%d%%positive, %s)" % (i + 1, coq_str(n)) for i, n in enumerate(F.names)))
    o.append("Definition mutex_names : list (positive * string) := [\n  %s]%%string.\n" %
             ";\n  ".join("(%d%%positive, %s)" % (i + 1, coq_str(n)) for i, n in enumerate(M.names)))
    o.append("Definition var_names : list (positive * string) := [\n  %s]%%string.\n" %
             ";\n  ".join("(%d%%positive, %s)" % (i + 1, coq_str(n)) for i, n in enumerate(V.names)))
    o.append("Definition site_names : list (positive * string) := [\n  %s]%%string.\n" %
             ";\n  ".join("(%d%%positive, %s)" % (i + 1, coq_str(n)) for i, n in enumerate(S.names)))
    # variable table: (id, is_heap, is_const, is_volatile_sig_atomic)
    rows = []
    for i, n in enumerate(V.names):
        heap = n.startswith("heap:")
        g = m.globals.get(root_of.get(n)) if not heap else None
        rows.append("(%d, mkVarInfo %s %s %s)" % (i + 1, "true" if heap else "false",
                                                   "true" if (g and g["const"]) else "false",
                                                   "true" if (g and g["sigatomic"]) else "false"))
    o.append("Definition var_table : list (positive * var_info) := [\n  %s].\n" % ";\n  ".join(rows))
    # declared globals with qualifiers (documentation + correspondence)
    o.append("(* file-scope / external variables: name, declared type, defining file:line\n" +
             "".join("   %s : %s   [%s:%s]%s\n" % (g, m.globals[g]["type"].replace("*)", "* )"), os.path.basename(m.globals[g]["file"] or "?"),
                                                   m.globals[g]["line"], " const" if m.globals[g]["const"] else "")
                     for g in sorted(m.globals)) + "*)\n")
    # scenarios
    sc = []
    for s in m.scenarios:
        specs = []
        for sp in s["specs"]:
            specs.append("mkSpec %s %d %s %s %s %s %s" % (
                coq_str(sp["name"]), F.get(sp["entry"]), "true" if sp["multi"] else "false",
                "true" if sp["is_main"] else "false",
                "(Some %d%%nat)" % sp["parent"] if sp["parent"] is not None else "None",
                "true" if sp["start_conc"] else "false", "true" if sp.get("handler") else "false"))
        sc.append("(%s%%string, [\n    %s])" % (coq_str(s["name"]), ";\n    ".join(specs)))
    o.append("Definition scenarios : list (string * list spec) := [\n  %s].\n" % ";\n  ".join(sc))
    o.append("(* create sites: %s\n   join sites: %s\n   last-join sites: %s\n   bracket functions: %s\n   IfMain sites: %s *)\n" % (
        sorted(set(m.create_sites)), sorted(set(m.join_sites)), sorted(m.last_join_sites), m.brackets, sorted(set(m.ifmain_sites))))
    m.ids = {"V": V, "F": F, "M": M, "S": S}
    return "\n".join(o)


def generate(repo, out):
    def body():
        m = translate(repo)
        if m.addr_escapes:
            raise Unsupported("address of a non-const global taken outside a call argument: %r" % m.addr_escapes[:5])
        return emit(m)
    out.write("LockProg.v", "src/{process,compress,expand,signals,main}.c (clang -ast-dump=json)", body)


if __name__ == "__main__":
    repo = sys.argv[1] if len(sys.argv) > 1 else "/repo"
    m = translate(repo)
    txt = emit(m)
    if len(sys.argv) > 2:
        open(sys.argv[2], "w").write(txt)
    print("functions:", len(m.func_nodes), "instances:", len(m.instances), "globals:", len(m.globals),
          "vars:", len(m.ids["V"].names), "mutexes:", m.mutexes)
    print("classes:", json.dumps(m.classes, indent=1))
    print("brackets:", m.brackets, "last joins:", m.last_join_sites)
    print("handlers:", m.handlers, "escapes:", m.addr_escapes)
    print("unsupported:", getattr(m, "unsupported", {}))
    for s in m.scenarios:
        print(s["name"], [(x["name"], x["entry"], x["parent"], x["start_conc"]) for x in s["specs"]])
