"""Translator plugin for the stream-level parser (properties C05/C06/C07/C15, stream layer)
  ->  coq/Gen/ParseTab.v

Transcribed from the *current* /repo/src on every run:

  parse.c     the anonymous enum of parser states; parser_init(); parse(): the leading
              assert, the `while (OK == bits_need(bs, W)) { unsigned word = bits_peek(bs, W);
              bits_dump(bs, W); switch (ps->state) {...} <after> }` loop and the code after the
              loop; the text of the bit-buffer macros bits_need/peek/dump/align (pinned: the
              list model of the bit buffer in Dec/ParseVocab.v was made for exactly this text)
  decode.h    struct parser_state / struct header (field names and integer types)
  scantab.h   the value of ACCEPT
  common.h    enum error (the set of codes parse() may return)
  expand.c    the arguments of parser_init(&par, bs100k, <stream_mode>)
  process.c   the MAGIC(k) macro and the header sniff of work()

Statements are translated STRUCTURALLY (not case by case) into a Gallina term over a
record `pmem` (the fields of *ps, *hd, *garbage and the bit buffer):

    lhs = e;                 let m := set_<lhs> m <e> in ...
    if (c) S1 else S2; R     if <c> then [S1; R] else [S2; R]
    assert(c); R             if <c> then [R] else (m, PAbort)
    return CODE;             (m, PRet RC_CODE)
    continue;                (m, PCont)
    break;  (in the switch)  [statements after the switch; end of loop body = PCont]
    bits_align(bs);          let m := set_buf m (bits_align (m_buf m)) in ...

Expressions are typed as C types them (`int` -> Z, `unsigned`/`uint32_t` -> N with an
explicit `mod 2^32` on every operation that can carry out of 32 bits, mixed operands
converted to unsigned), constants are emitted as written (hex stays hex).  `ps->state`
is the only field with a non-numeric type: it may only be assigned / compared with a
state name.  Whatever is outside this vocabulary raises ParseError (=> broken tie).
"""
import os
import re
import sys

sys.path.insert(0, os.path.dirname(os.path.abspath(__file__)))
import cparse
from cparse import ParseError

WORD_BITS_MAX = 32


def read(repo, rel):
    with open(os.path.join(repo, rel), encoding="latin-1") as f:
        return f.read()


def norm(s):
    return "".join(v for _, v in cparse.tokenize(s))


# --------------------------------------------------------------------------
# statement parser (tokens -> small AST)
#   ("block", [stmts]) ("if", cond, then_stmts, else_stmts) ("return", expr|None)
#   ("continue",) ("break",) ("assert", expr) ("assign", lhs, rhs) ("call", name, [args])
#   ("switch", expr, [(labels, stmts)], default_stmts|None) ("while", cond, stmts)
#   ("decl", type_words, name, init_expr)
# --------------------------------------------------------------------------
class TExprParser(cparse.ExprParser):
    """ExprParser that keeps the spelling of numeric literals (suffix and radix matter)."""

    def postfix(self):
        k, v = self.peek()
        if k == "num":
            self.eat()
            return ("lit", cparse.parse_int(v), v)
        return super().postfix()


TYPE_WORDS = ("unsigned", "int", "uint32_t", "long", "char", "short", "uint16_t", "uint8_t", "uint64_t", "size_t")


class StmtParser:
    def __init__(self, text):
        self.p = TExprParser(cparse.tokenize(text))

    def peek(self, off=0):
        i = self.p.i + off
        return self.p.t[i] if i < len(self.p.t) else ("eof", "")

    def eat(self, v=None):
        return self.p.eat(v)

    def at_end(self):
        return self.p.i >= len(self.p.t)

    def expr(self):
        return self.p.ternary()

    def stmts_until(self, stops):
        out = []
        while True:
            k, v = self.peek()
            if k == "eof":
                if "eof" in stops:
                    return out
                raise ParseError("unexpected end of text in statement list")
            if k == "op" and v in stops:
                return out
            if k == "id" and v in stops:
                return out
            out.append(self.stmt())

    def body(self):
        """a statement used as a branch: always returned as a list"""
        s = self.stmt()
        return s[1] if s[0] == "block" else [s]

    def stmt(self):
        k, v = self.peek()
        if (k, v) == ("op", "{"):
            self.eat()
            ss = self.stmts_until(("}",))
            self.eat("}")
            return ("block", ss)
        if (k, v) == ("op", ";"):
            raise ParseError("empty statement")
        if k == "id" and v == "if":
            self.eat()
            self.eat("(")
            c = self.expr()
            self.eat(")")
            th = self.body()
            el = []
            if self.peek() == ("id", "else"):
                self.eat()
                el = self.body()
            return ("if", c, th, el)
        if k == "id" and v == "return":
            self.eat()
            e = None
            if self.peek() != ("op", ";"):
                e = self.expr()
            self.eat(";")
            return ("return", e)
        if k == "id" and v in ("continue", "break"):
            self.eat()
            self.eat(";")
            return (v,)
        if k == "id" and v == "while":
            self.eat()
            self.eat("(")
            c = self.expr()
            self.eat(")")
            return ("while", c, self.body())
        if k == "id" and v == "switch":
            self.eat()
            self.eat("(")
            e = self.expr()
            self.eat(")")
            self.eat("{")
            cases, default = [], None
            while self.peek() != ("op", "}"):
                labels = []
                isdef = False
                while self.peek() in (("id", "case"), ("id", "default")):
                    if self.eat()[1] == "case":
                        labels.append(self.expr())
                    else:
                        isdef = True
                    self.eat(":")
                if not labels and not isdef:
                    raise ParseError("statement before the first case label of a switch")
                ss = self.stmts_until(("case", "default", "}"))
                if isdef:
                    if labels:
                        raise ParseError("default shares its body with a case label")
                    if default is not None:
                        raise ParseError("two default labels")
                    default = ss
                else:
                    cases.append((labels, ss))
            self.eat("}")
            return ("switch", e, cases, default)
        if k == "id" and v in ("for", "do", "goto"):
            raise ParseError("statement `%s` is outside the vocabulary" % v)
        if k == "id" and v in TYPE_WORDS:
            words = []
            while self.peek()[0] == "id" and self.peek()[1] in TYPE_WORDS:
                words.append(self.eat()[1])
            kk, name = self.eat()
            if kk != "id":
                raise ParseError("declaration without a name")
            self.eat("=")
            e = self.expr()
            self.eat(";")
            return ("decl", tuple(words), name, e)
        # expression statement
        e = self.expr()
        if self.peek() == ("op", "="):
            self.eat()
            if self.peek() == ("op", "="):
                raise ParseError("`==` used as a statement")
            r = self.expr()
            if self.peek() == ("op", "="):
                raise ParseError("chained assignment is outside the vocabulary")
            self.eat(";")
            return ("assign", e, r)
        self.eat(";")
        if e[0] == "call" and e[1][0] == "id":
            if e[1][1] == "assert":
                if len(e[2]) != 1:
                    raise ParseError("assert with %d arguments" % len(e[2]))
                return ("assert", e[2][0])
            return ("call", e[1][1], e[2])
        raise ParseError("expression statement %r is outside the vocabulary" % (e,))


def parse_stmts(text):
    sp = StmtParser(text)
    return sp.stmts_until(("eof",))


# --------------------------------------------------------------------------
# typed expression translation
# --------------------------------------------------------------------------
def lit_text(tok):
    t = tok.rstrip("uUlL")
    if len(t) > 1 and t[0] == "0" and t[1] not in "xX":
        raise ParseError("octal literal %s" % tok)
    return t


class Tr:
    """Translates expressions/statements of one function.

    fields: {("ps", name): ctype, ("hd", name): ctype}   ctype in "int","u32","state"
    locals: {name: (term, ctype)}
    """

    def __init__(self, fields, states, codes, locals_):
        self.fields = fields
        self.states = states
        self.codes = codes
        self.locals = locals_

    # --- lvalues / field access
    def lval(self, e):
        """-> (coq field suffix, ctype)"""
        if e[0] == "member" and e[3] and e[1][0] == "id" and (e[1][1], e[2]) in self.fields:
            owner, f = e[1][1], e[2]
            ty = self.fields[(owner, f)]
            if ty == "state":
                return "state", "state"
            return "%s_%s" % (owner, f), ty
        if e[0] == "un" and e[1] == "*" and e[2] == ("id", "garbage"):
            return "garbage", "u32"
        raise ParseError("lvalue %r is outside the vocabulary" % (e,))

    def state_name(self, e):
        if e[0] == "id" and e[1] in self.states:
            return "PS_" + e[1]
        raise ParseError("%r is not a parser state name" % (e,))

    def is_state(self, e):
        try:
            return self.lval(e)[1] == "state"
        except ParseError:
            return False

    # --- numeric expressions: -> (term, "int"|"u32")
    def num(self, e):
        k = e[0]
        if k == "lit":
            v, tok = e[1], e[2]
            t = lit_text(tok)
            uns = bool(re.search(r"[uU]", tok[len(t):]))
            if re.search(r"[lL]", tok[len(t):]):
                raise ParseError("long literal %s" % tok)
            hexa = t[:2].lower() == "0x"
            if uns:
                if v >= 1 << 32:
                    raise ParseError("literal %s does not fit unsigned int" % tok)
                return t, "u32"
            if v < 1 << 31:
                return "%s%%Z" % t, "int"
            if hexa and v < 1 << 32:
                return t, "u32"
            raise ParseError("literal %s does not fit int/unsigned" % tok)
        if k == "id":
            if e[1] in self.locals:
                return self.locals[e[1]]
            raise ParseError("identifier %s is outside the vocabulary" % e[1])
        if k == "member" or (k == "un" and e[1] == "*"):
            f, ty = self.lval(e)
            if ty == "state":
                raise ParseError("ps->state used as a number")
            return "(m_%s m)" % f, ty
        if k == "cast":
            t, ty = self.num(e[2])
            if e[1] in ("unsigned", "unsigned int", "uint32_t"):
                return self.to_u32((t, ty)), "u32"
            if e[1] == "int":
                return self.to_int((t, ty)), "int"
            raise ParseError("cast to %s is outside the vocabulary" % e[1])
        if k == "un":
            op = e[1]
            if op == "-":
                a = e[2]
                if a[0] == "lit":
                    t, ty = self.num(a)
                    if ty == "int":
                        return "(- %s)%%Z" % t[:-2], "int"
                t, ty = self.num(a)
                if ty == "u32":
                    return "((4294967296 - %s) mod 4294967296)" % t, "u32"
                raise ParseError("negation of a signed non-literal is outside the vocabulary")
            if op == "+":
                return self.num(e[2])
            if op == "~":
                t, ty = self.num(e[2])
                if ty != "u32":
                    raise ParseError("~ on a signed operand is outside the vocabulary")
                return "(N.lxor %s 0xFFFFFFFF)" % t, "u32"
            if op == "!":
                return "(if %s then 1 else 0)%%Z" % self.cond(e), "int"
            raise ParseError("unary %s is outside the vocabulary" % op)
        if k == "bin":
            op, a, b = e[1], e[2], e[3]
            if op in ("<", ">", "<=", ">=", "==", "!=", "&&", "||"):
                return "(if %s then 1 else 0)%%Z" % self.cond(e), "int"
            if op in ("<<", ">>"):
                ta = self.num(a)
                tb = self.num(b)
                if ta[1] != "u32":
                    raise ParseError("shift of a signed operand is outside the vocabulary")
                cnt = self.to_u32(tb)
                if op == "<<":
                    return "((N.shiftl %s %s) mod 4294967296)" % (ta[0], cnt), "u32"
                return "(N.shiftr %s %s)" % (ta[0], cnt), "u32"
            ta, tb = self.num(a), self.num(b)
            if ta[1] == "int" and tb[1] == "int":
                raise ParseError("signed arithmetic `%s` is outside the vocabulary" % op)
            A, B = self.to_u32(ta), self.to_u32(tb)
            if op == "&":
                return "(N.land %s %s)" % (A, B), "u32"
            if op == "|":
                return "(N.lor %s %s)" % (A, B), "u32"
            if op == "^":
                return "(N.lxor %s %s)" % (A, B), "u32"
            if op == "+":
                return "((%s + %s) mod 4294967296)" % (A, B), "u32"
            if op == "-":
                return "((%s + 4294967296 - %s) mod 4294967296)" % (A, B), "u32"
            if op == "*":
                return "((%s * %s) mod 4294967296)" % (A, B), "u32"
            raise ParseError("operator %s is outside the vocabulary" % op)
        if k == "cond":
            ta, tb = self.num(e[2]), self.num(e[3])
            if ta[1] == tb[1]:
                return "(if %s then %s else %s)" % (self.cond(e[1]), ta[0], tb[0]), ta[1]
            return "(if %s then %s else %s)" % (self.cond(e[1]), self.to_u32(ta), self.to_u32(tb)), "u32"
        raise ParseError("expression %r is outside the vocabulary" % (e,))

    def to_u32(self, tt):
        t, ty = tt
        if ty == "u32":
            return t
        m = re.match(r"^((?:0[xX][0-9a-fA-F]+)|\d+)%Z$", t)
        if m:                       # non-negative literal: the conversion is the identity
            return m.group(1)
        return "(u32_of_int %s)" % t

    def to_int(self, tt):
        t, ty = tt
        if ty == "int":
            return t
        return "(int_of_u32 %s)" % t

    # --- conditions: -> Gallina bool
    def cond(self, e):
        k = e[0]
        if k == "un" and e[1] == "!":
            return "(negb %s)" % self.cond(e[2])
        if k == "bin" and e[1] in ("&&", "||"):
            return "(%s %s %s)" % (self.cond(e[2]), e[1], self.cond(e[3]))
        if k == "bin" and e[1] in ("==", "!=") and (self.is_state(e[2]) or self.is_state(e[3])):
            a, b = (e[2], e[3]) if self.is_state(e[2]) else (e[3], e[2])
            t = "(pstate_eqb (m_state m) %s)" % self.state_name(b)
            return t if e[1] == "==" else "(negb %s)" % t
        if k == "bin" and e[1] in ("<", ">", "<=", ">=", "==", "!="):
            ta, tb = self.num(e[2]), self.num(e[3])
            if ta[1] == "int" and tb[1] == "int":
                mod, A, B = "Z", ta[0], tb[0]
            else:
                mod, A, B = "N", self.to_u32(ta), self.to_u32(tb)
            op = e[1]
            if op == "<":
                return "(%s.ltb %s %s)" % (mod, A, B)
            if op == ">":
                return "(%s.ltb %s %s)" % (mod, B, A)
            if op == "<=":
                return "(%s.leb %s %s)" % (mod, A, B)
            if op == ">=":
                return "(%s.leb %s %s)" % (mod, B, A)
            if op == "==":
                return "(%s.eqb %s %s)" % (mod, A, B)
            return "(negb (%s.eqb %s %s))" % (mod, A, B)
        t, ty = self.num(e)         # a number used as a condition: != 0
        if ty == "int":
            return "(negb (Z.eqb %s 0%%Z))" % t
        return "(negb (N.eqb %s 0))" % t

    # --- statements
    def stmts(self, ss, ind, fall, brk, allow_continue):
        """ss: list of statements; fall/brk: functions ind -> term for falling off the end /
        `break`, or None when not allowed."""
        pad = "  " * ind
        if not ss:
            if fall is None:
                raise ParseError("control can fall off the end of a case/function body")
            return fall(ind)
        s, rest = ss[0], ss[1:]
        k = s[0]
        if k == "block":
            return self.stmts(list(s[1]) + rest, ind, fall, brk, allow_continue)
        if k == "return":
            if s[1] is None or s[1][0] != "id" or s[1][1] not in self.codes:
                raise ParseError("return value %r is not a name of enum error" % (s[1],))
            return pad + "(m, PRet RC_%s)" % s[1][1]
        if k == "continue":
            if not allow_continue:
                raise ParseError("continue outside the loop")
            return pad + "(m, PCont)"
        if k == "break":
            if brk is None:
                raise ParseError("break outside the switch")
            return brk(ind)
        if k == "assert":
            c = self.cond(s[1])
            return pad + "if %s then\n%s\n%selse (m, PAbort)" % (
                c, self.stmts(rest, ind + 1, fall, brk, allow_continue), pad)
        if k == "if":
            c = self.cond(s[1])
            return pad + "if %s then\n%s\n%selse\n%s" % (
                c, self.stmts(list(s[2]) + rest, ind + 1, fall, brk, allow_continue), pad,
                self.stmts(list(s[3]) + rest, ind + 1, fall, brk, allow_continue))
        if k == "assign":
            f, ty = self.lval(s[1])
            if ty == "state":
                v = self.state_name(s[2])
            else:
                tt = self.num(s[2])
                v = self.to_u32(tt) if ty == "u32" else self.to_int(tt)
            return pad + "let m := set_%s m %s in\n%s" % (f, v, self.stmts(rest, ind, fall, brk, allow_continue))
        if k == "call":
            if s[1] == "bits_align" and s[2] == [("id", "bs")]:
                return pad + "let m := set_buf m (bits_align (m_buf m)) in\n%s" % \
                    self.stmts(rest, ind, fall, brk, allow_continue)
            raise ParseError("call of %s(...) as a statement is outside the vocabulary" % s[1])
        raise ParseError("statement %r is outside the vocabulary" % (k,))


# --------------------------------------------------------------------------
# pieces
# --------------------------------------------------------------------------
CTYPES = {"int": "int", "uint32_t": "u32", "unsigned": "u32", "unsigned int": "u32"}
COQTY = {"int": "Z", "u32": "N", "state": "pstate"}


def struct_fields(src, name):
    m = re.search(r"struct\s+%s\s*\{([^}]*)\}" % re.escape(name), src)
    if not m:
        raise ParseError("struct %s not found in decode.h" % name)
    out = []
    for decl in m.group(1).split(";"):
        decl = decl.strip()
        if not decl:
            continue
        mm = re.match(r"^([A-Za-z_][\w ]*?)\s+([A-Za-z_]\w*)$", decl)
        if not mm:
            raise ParseError("struct %s: declaration `%s` not understood" % (name, decl))
        ty, f = " ".join(mm.group(1).split()), mm.group(2)
        if ty not in CTYPES:
            raise ParseError("struct %s: field %s has type `%s` (only int/unsigned/uint32_t are modelled)" % (name, f, ty))
        out.append((f, CTYPES[ty]))
    return out


# the bit-buffer macros the list model (Dec/ParseVocab.v, Dec/ParseModel.v) stands for
BIT_MACROS = {
    "bits_need": ("(bs,n)", "((n)<=(bs)->live?OK:unlikely((bs)->data==(bs)->limit)?(bs)->eof?FINISH:MORE:"
                            "((bs)->buff|=(uint64_t)ntohl(*(bs)->data)<<(32u-(bs)->live),(bs)->data++,"
                            "(bs)->live+=32u,OK))"),
    "bits_peek": ("(bs,n)", "((bs)->buff>>(64u-(n)))"),
    "bits_dump": ("(bs,n)", "((bs)->buff<<=(n),(bs)->live-=(n),(void)0)"),
    "bits_align": ("(bs)", "(bits_dump(bs,(bs)->live%8u),(void)0)"),
}


def check_bit_macros(src):
    defs = cparse.find_defines(src)
    for name, (params, body) in BIT_MACROS.items():
        if name not in defs:
            raise ParseError("macro %s not found in parse.c" % name)
        p, b = defs[name]
        if p is None or norm(p) != params or norm(b) != body:
            raise ParseError("macro %s changed: the bit-buffer model was made for `%s %s`, found `%s %s`" % (
                name, params, body, norm(p or ""), norm(b)))


def find_state_enum(src, needed):
    for m in re.finditer(r"\benum\s*\{([^}]*)\}", src):
        names = [x.strip() for x in m.group(1).split(",") if x.strip()]
        vals, nxt = [], 0
        ok = True
        for n in names:
            mm = re.match(r"^([A-Za-z_]\w*)(?:\s*=\s*(.+))?$", n, re.S)
            if not mm:
                ok = False
                break
            if mm.group(2) is not None:
                nxt = cparse.eval_const(cparse.parse_expr(mm.group(2)), dict(vals))
            vals.append((mm.group(1), nxt))
            nxt += 1
        if ok and needed <= set(n for n, _ in vals):
            return vals
    raise ParseError("enum of parser states (containing %s) not found" % ", ".join(sorted(needed)))


def gen(repo):
    psrc = cparse.strip_comments(read(repo, "src/parse.c"))
    dsrc = cparse.strip_comments(read(repo, "src/decode.h"))
    csrc = cparse.strip_comments(read(repo, "src/common.h"))
    ssrc = cparse.strip_comments(read(repo, "src/scantab.h"))
    xsrc = cparse.strip_comments(read(repo, "src/expand.c"))
    rsrc = cparse.strip_comments(read(repo, "src/process.c"))

    check_bit_macros(psrc)

    # ---- enum error
    m = re.search(r"enum\s+error\s*\{([^}]*)\}", csrc)
    if not m:
        raise ParseError("enum error not found")
    codes = [x.strip() for x in m.group(1).split(",") if x.strip()]

    # ---- structs
    ps_fields = struct_fields(dsrc, "parser_state")
    hd_fields = struct_fields(dsrc, "header")
    if ("state", "int") not in ps_fields:
        raise ParseError("struct parser_state has no `int state`")
    fields = {}
    for f, ty in ps_fields:
        fields[("ps", f)] = "state" if f == "state" else ty
    for f, ty in hd_fields:
        fields[("hd", f)] = ty

    # ---- parse(): shape
    params, body = cparse.find_function_body(psrc, "parse")
    if norm(params) != norm("struct parser_state *restrict ps, struct header *restrict hd, "
                            "struct bitstream *bs, unsigned *garbage"):
        raise ParseError("parse(): unexpected parameter list `%s`" % " ".join(params.split()))
    top = parse_stmts(body)
    loops = [i for i, s in enumerate(top) if s[0] == "while"]
    if len(loops) != 1:
        raise ParseError("parse(): expected exactly one top-level while loop, found %d" % len(loops))
    li = loops[0]
    pre, loop, post = top[:li], top[li], top[li + 1:]

    def is_need(e, op, code):
        """`code op bits_need(bs, W)` -> W"""
        if e[0] == "bin" and e[1] == op and e[2] == ("id", code) and e[3][0] == "call" \
                and e[3][1] == ("id", "bits_need") and len(e[3][2]) == 2 and e[3][2][0] == ("id", "bs") \
                and e[3][2][1][0] == "lit":
            return e[3][2][1][1]
        raise ParseError("expected `%s %s bits_need(bs, <n>)`, found %r" % (code, op, e))

    W = is_need(loop[1], "==", "OK")
    lb = loop[2]
    if len(lb) < 3:
        raise ParseError("parse(): loop body too short")
    d, dump, sw = lb[0], lb[1], lb[2]
    if not (d[0] == "decl" and d[1] == ("unsigned",) and d[2] == "word" and d[3][0] == "call"
            and d[3][1] == ("id", "bits_peek") and d[3][2] == [("id", "bs"), ("lit", W, d[3][2][1][2])]):
        raise ParseError("parse(): loop body does not start with `unsigned word = bits_peek(bs, %d);`" % W)
    if not (dump[0] == "call" and dump[1] == "bits_dump" and len(dump[2]) == 2 and dump[2][0] == ("id", "bs")
            and dump[2][1][0] == "lit" and dump[2][1][1] == W):
        raise ParseError("parse(): second statement of the loop is not `bits_dump(bs, %d);`" % W)
    if not (1 <= W <= WORD_BITS_MAX):
        raise ParseError("parse(): word width %d" % W)
    if not (sw[0] == "switch" and sw[1] == ("member", ("id", "ps"), "state", True)):
        raise ParseError("parse(): third statement of the loop is not `switch (ps->state)`")
    after_switch = lb[3:]

    labels = set()
    for labs, _ in sw[2]:
        for l in labs:
            if l[0] != "id":
                raise ParseError("case label %r is not a name" % (l,))
            if l[1] in labels:
                raise ParseError("duplicate case label %s" % l[1])
            labels.add(l[1])
    enum = find_state_enum(psrc, labels)
    m = re.search(r"\bACCEPT\s*=\s*(\d+)\s*;", ssrc)
    if not m:
        raise ParseError("ACCEPT not found in scantab.h")
    states = [n for n, _ in enum] + ["ACCEPT"]
    if len(set(states)) != len(states):
        raise ParseError("ACCEPT is also an enumerator")
    state_codes = dict(enum)
    state_codes["ACCEPT"] = int(m.group(1))

    # ---- emit: types
    s = "From LBZ Require Import Dec.ParseVocab.\nLocal Open Scope bool_scope.\n\n"
    s += "(* parse.c: the parser states (anonymous enum) and ACCEPT (scantab.h) *)\n"
    s += "Inductive pstate :=\n" + "\n".join("| PS_%s" % n for n in states) + ".\n"
    s += "Definition pstate_code (s : pstate) : N :=\n  match s with\n" + \
        "\n".join("  | PS_%s => %d" % (n, state_codes[n]) for n in states) + "\n  end.\n"
    s += "Definition all_pstates : list pstate := [%s].\n" % "; ".join("PS_%s" % n for n in states)
    s += "(* C compares the int values *)\n"
    s += "Definition pstate_eqb (a b : pstate) : bool := N.eqb (pstate_code a) (pstate_code b).\n\n"

    recf = [("state", "state")] + [("ps_%s" % f, ty) for f, ty in ps_fields if f != "state"] + \
        [("hd_%s" % f, ty) for f, ty in hd_fields] + [("garbage", "u32"), ("buf", "bits")]
    cty = dict(COQTY)
    cty["bits"] = "list bool"
    s += "(* *ps (decode.h struct parser_state), *hd (struct header), *garbage, and the bit buffer *)\n"
    s += "Record pmem := mk_pmem {\n" + "\n".join("  m_%s : %s;" % (f, cty[ty]) for f, ty in recf) + "\n}.\n"
    for f, ty in recf:
        s += "Definition set_%s (m : pmem) (v : %s) : pmem :=\n  mk_pmem %s.\n" % (
            f, cty[ty], " ".join("v" if g == f else "(m_%s m)" % g for g, _ in recf))
    s += "\n"

    # ---- parser_init
    iparams, ibody = cparse.find_function_body(psrc, "parser_init")
    if norm(iparams) != norm("struct parser_state *ps, int bs100k, int stream_mode"):
        raise ParseError("parser_init(): unexpected parameter list")
    tr = Tr(fields, states, codes, {"bs100k": ("bs100k", "int"), "stream_mode": ("stream_mode", "int")})
    s += "(* parse.c parser_init(): fields not assigned keep whatever the memory held *)\n"
    s += "Definition parser_init (m : pmem) (bs100k stream_mode : Z) : pmem :=\n"
    s += tr.stmts(parse_stmts(ibody), 1, lambda ind: "  " * ind + "m", None, False) + ".\n\n"

    # ---- parse(): entry assertion(s)
    tr = Tr(fields, states, codes, {"word": ("word", "u32")})
    for st in pre:
        if st[0] != "assert":
            raise ParseError("parse(): statement before the loop is not an assert")
    s += "(* parse(): the asserts before the loop *)\n"
    s += "Definition parse_entry_ok (m : pmem) : bool :=\n  %s.\n\n" % (
        " && ".join(Tr(fields, states, codes, {}).cond(st[1]) for st in pre) if pre else "true")

    s += "(* parse(): `while (OK == bits_need(bs, W)) { unsigned word = bits_peek(bs, W); bits_dump(bs, W); ...` *)\n"
    s += "Definition parse_word_bits : nat := %d.\n\n" % W

    # ---- parse(): one loop iteration after peek+dump
    def after(ind):
        return tr.stmts(after_switch, ind, lambda i: "  " * i + "(m, PCont)", None, True)

    s += "(* parse(): one iteration of the loop, after `word` was taken off the buffer *)\n"
    s += "Definition parse_step (m : pmem) (word : N) : pmem * pout :=\n  match m_state m with\n"
    covered = set()
    for labs, ss in sw[2]:
        for l in labs:
            covered.add(l[1])
        s += "  | %s =>\n" % " | ".join("PS_%s" % l[1] for l in labs)
        s += tr.stmts(ss, 3, None, after, True) + "\n"
    rest = [n for n in states if n not in covered]
    if rest:
        s += "  | %s =>\n" % " | ".join("PS_%s" % n for n in rest)
        if sw[3] is None:
            s += after(3) + "\n"
        else:
            s += tr.stmts(sw[3], 3, None, after, True) + "\n"
    s += "  end.\n\n"

    # ---- parse(): after the loop
    if not post or post[0][0] != "if" or post[0][3] != [] or len(post[0][2]) != 1 or \
            post[0][2][0] != ("return", ("id", "MORE")):
        raise ParseError("parse(): the loop is not followed by `if (FINISH != bits_need(bs, %d)) return MORE;`" % W)
    if is_need(post[0][1], "!=", "FINISH") != W:
        raise ParseError("parse(): bits_need after the loop asks for a different width")
    s += "(* parse(): after the loop, when bits_need(bs, W) == FINISH (otherwise: return MORE) *)\n"
    s += "Definition parse_eof (m : pmem) : pmem * pout :=\n"
    s += Tr(fields, states, codes, {}).stmts(post[1:], 1, None, None, False) + ".\n\n"

    # ---- expand.c: how the parser is started
    m = re.findall(r"\bparser_init\s*\(\s*&par\s*,\s*bs100k\s*,\s*([^)]+?)\s*\)", xsrc)
    if len(m) != 1:
        raise ParseError("expand.c: expected one call parser_init(&par, bs100k, <mode>), found %d" % len(m))
    s += "(* expand.c: parser_init(&par, bs100k, %s) *)\n" % m[0]
    s += "Definition expand_stream_mode : Z := %d.\n\n" % cparse.eval_const(cparse.parse_expr(m[0]), {})

    # ---- process.c: the header sniff of work()
    defs = cparse.find_defines(rsrc)
    if "MAGIC" not in defs or norm(defs["MAGIC"][0] or "") != "(k)":
        raise ParseError("process.c: macro MAGIC(k) not found")
    mm = re.match(r"^\(\s*(0[xX][0-9a-fA-F]+)[uU]?\s*\+\s*\(\s*k\s*\)\s*\)$", defs["MAGIC"][1])
    if not mm:
        raise ParseError("process.c: MAGIC(k) is not `(<hex>u + (k))`")
    s += "(* process.c: #define MAGIC(k) %s *)\n" % defs["MAGIC"][1]
    s += "Definition file_magic_base : N := %s.\n" % mm.group(1)
    mm = re.search(r"ntohl\s*\(\s*header\s*\)\s*>=\s*MAGIC\s*\(\s*(\d+)\s*\)\s*&&\s*ntohl\s*\(\s*header\s*\)\s*<=\s*"
                   r"MAGIC\s*\(\s*(\d+)\s*\)", rsrc)
    if not mm:
        raise ParseError("process.c: header test `ntohl(header) >= MAGIC(a) && ntohl(header) <= MAGIC(b)` not found")
    s += "Definition file_magic_lo : N := %s.\nDefinition file_magic_hi : N := %s.\n" % (mm.group(1), mm.group(2))
    mm = re.search(r"\bbs100k\s*=\s*ntohl\s*\(\s*header\s*\)\s*-\s*MAGIC\s*\(\s*(\d+)\s*\)\s*;", rsrc)
    if not mm:
        raise ParseError("process.c: `bs100k = ntohl(header) - MAGIC(k);` not found")
    s += "Definition file_magic_level_base : N := %s.\n" % mm.group(1)
    return s


def generate(repo, out):
    out.write("ParseTab.v", "src/parse.c src/decode.h src/scantab.h src/common.h src/expand.c src/process.c",
              lambda: gen(repo))


if __name__ == "__main__":
    # stand-alone: gen_parse.py --repo DIR --out DIR   (writes DIR/ParseTab.v)
    import gen_from_source
    repo, outdir = "/repo", None
    args = sys.argv[1:]
    while args:
        a = args.pop(0)
        if a == "--repo":
            repo = args.pop(0)
        elif a == "--out":
            outdir = args.pop(0)
    if outdir is None:
        sys.stdout.write(gen(repo))
    else:
        os.makedirs(outdir, exist_ok=True)
        o = gen_from_source.Out(outdir)
        generate(repo, o)
        print(o.status)
