"""Shared machinery of the front-end checks C16, C17, C18 (area Front).

A *scenario* is a python dict
    inodes: {ino: {"kind": "r"|"d"|"p", "mode": int, "uid": int, "gid": int,
                   "atime": ns, "mtime": ns, "data": bytes}}
    names:  {relative path: ("L", ino) | ("S", target)}
    ops:    [relative path, ...]           FILE operands, in order
    flags:  [option tokens]                e.g. ["-d", "-k"]
    plan:   None | (kind, nth, "F", errno) | (kind, nth, "R", "INT"|"TERM"|"KILL")
It is materialised in a scratch directory and run through the real binary, and
printed as a case for the extracted model (harness/front_driver.ml); the two
results are brought to one canonical form and compared.
"""
import hashlib
import os
import shutil
import signal
import stat as statmod
import subprocess
import time

import vlib

NOW = 4_000_000_000 * 10**9          # model time stamp of "written during the run"
T_PLANT_LO = 1_000_000_000           # planted times: seconds in [1.0e9, 1.6e9)
T_PLANT_HI = 1_600_000_000
SIGNUM = {"INT": signal.SIGINT, "TERM": signal.SIGTERM, "KILL": signal.SIGKILL}
ERRNO = {"EIO": 5, "ENOSPC": 28, "EACCES": 13}


def hx(b):
    if isinstance(b, str):
        b = b.encode("latin-1")
    return b.hex() if b else "-"


def unhx(h):
    return b"" if h == "-" else bytes.fromhex(h)


# ---------------------------------------------------------------------------
# options -> configuration (the part of opts_setup() that matters here; the
# option handlers themselves are property C22)
# ---------------------------------------------------------------------------
def cfg_of_flags(flags):
    dec, force, keep, om = False, False, False, "r"
    LONG = {"--stdout": "c", "--test": "t", "--decompress": "d", "--compress": "z", "--force": "f", "--keep": "k"}
    for f in flags:
        for ch in (LONG.get(f, "") if f.startswith("--") else f[1:]):
            if ch == "c":
                om = "c"
            elif ch == "t":
                om = "t"
                dec = True
            elif ch in "dz":
                dec = ch == "d"
                if om == "t":
                    om = "r"
            elif ch == "f":
                force = True
            elif ch == "k":
                keep = True
    return {"decompress": dec, "force": force, "keep": keep, "outmode": om}


# ---------------------------------------------------------------------------
# real side
# ---------------------------------------------------------------------------
def materialise(scn, d):
    shutil.rmtree(d, ignore_errors=True)
    os.makedirs(d)
    byino = {}
    for p, e in scn["names"].items():
        if e[0] == "L":
            byino.setdefault(e[1], []).append(p)
    # directories first (shortest path first), then the other inodes, then symlinks
    order = sorted(byino.items(), key=lambda kv: (scn["inodes"][kv[0]]["kind"] != "d", min(len(x) for x in kv[1])))
    for ino, paths in order:
        nd = scn["inodes"][ino]
        first = os.path.join(d, paths[0])
        if nd["kind"] == "d":
            os.makedirs(first, exist_ok=True)
        elif nd["kind"] == "p":
            os.mkfifo(first)
        else:
            with open(first, "wb") as f:
                f.write(nd["data"])
        for other in paths[1:]:
            os.link(first, os.path.join(d, other))
    for p, e in scn["names"].items():
        if e[0] == "S":
            # the model resolves a link target as a name relative to the working directory (names are opaque keys);
            # on disk the target is relative to the directory of the link
            os.symlink(os.path.relpath(e[1], os.path.dirname(p) or "."), os.path.join(d, p))
    for ino, paths in sorted(order, key=lambda kv: -min(len(x) for x in kv[1])):
        nd = scn["inodes"][ino]
        first = os.path.join(d, paths[0])
        os.chown(first, nd["uid"], nd["gid"])
        os.chmod(first, nd["mode"])
        os.utime(first, ns=(nd["atime"], nd["mtime"]))


def real_listing(d, t0_ns):
    """Sorted list of entries; times at or after t0_ns are reported as NOW."""
    out = []
    for root, dirs, files in os.walk(d):
        for nm in sorted(dirs + files):
            full = os.path.join(root, nm)
            rel = os.path.relpath(full, d)
            st = os.lstat(full)

            def tm(x):
                return NOW if x >= t0_ns else x
            if statmod.S_ISLNK(st.st_mode):
                out.append({"path": rel, "kind": "l",
                            "target": os.path.normpath(os.path.join(os.path.dirname(rel), os.readlink(full)))})
                continue
            kind = "r" if statmod.S_ISREG(st.st_mode) else "d" if statmod.S_ISDIR(st.st_mode) else \
                "p" if statmod.S_ISFIFO(st.st_mode) else "?"
            e = {"path": rel, "kind": kind, "mode": st.st_mode & 0o7777, "nlink": st.st_nlink,
                 "uid": st.st_uid, "gid": st.st_gid, "atime": tm(st.st_atime_ns), "mtime": tm(st.st_mtime_ns)}
            if kind == "r":
                with open(full, "rb") as f:
                    e["data"] = f.read()
            out.append(e)
    out.sort(key=lambda e: e["path"])
    return out


MSG_PATTERNS = [
    ("is the input file", ("warn", "samefile")),
    ("lstat()", ("warn", "lstat")), ("not a regular file", ("warn", "notreg")),
    ("more than one links", ("warn", "links")), ("compressed suffix", ("warn", "suffix")),
    ("fstat()", ("warn", "fstat")), ("won't restore", ("warn", "special")),
    ("fchown(", ("warn", "fchown")), ("fchmod(", ("warn", "fchmod")), ("futimens(", ("warn", "futimens")),
    ("not a valid bzip2 file", ("fail", "notbz2")), ("read()", ("fail", "read")), ("write()", ("fail", "write")),
]
MODEL_TAG = {"unlink-out": "unlink", "unlink-in": "unlink", "close-in": "close", "close-out": "close",
             "close-stdout": "close"}


def classify_stderr(err):
    msgs = []
    for line in err.decode("latin-1").splitlines():
        if not line.strip():
            continue
        tag = None
        if "skipping" in line and 'open("' in line:
            tag = ("warn", "open-out")
        elif "skipping" in line and "open()" in line:
            tag = ("warn", "open")
        elif ": unlink(" in line:
            tag = ("any", "unlink")
        elif ": close(" in line:
            tag = ("fail", "close")
        else:
            for pat, t in MSG_PATTERNS:
                if pat in line:
                    tag = t
                    break
        if tag is None:
            tag = ("fail", "data")
        msgs.append(tag)
    return msgs


def canon_model_msgs(msgs):
    out = []
    for cls, tag in msgs:
        t = MODEL_TAG.get(tag, tag)
        out.append(("any" if t == "unlink" else cls, t))
    return out


SIGNAME = {2: "INT", 15: "TERM", 9: "KILL", 25: "XFSZ", 13: "PIPE"}


def argv_of(scn, ops=None):
    return ["-n2"] + list(scn.get("xflags", [])) + list(scn["flags"]) + ["--"] + list(scn["ops"] if ops is None else ops)


def invoke(exe, argv, d, env_extra=None, timeout=20):
    """One invocation in directory d (no materialisation, no listing)."""
    env = {"PATH": os.environ.get("PATH", "/usr/bin:/bin"), "LC_ALL": "C"}
    if env_extra:
        env.update(env_extra)
    try:
        p = subprocess.run([exe] + argv, cwd=d, env=env, stdin=subprocess.DEVNULL,
                           stdout=subprocess.PIPE, stderr=subprocess.PIPE, timeout=timeout)
        rc, hung, out, err = p.returncode, False, p.stdout, p.stderr
    except subprocess.TimeoutExpired as ex:
        rc, hung, out, err = None, True, ex.stdout or b"", ex.stderr or b""
    res = {"rc": rc if (rc is not None and rc >= 0) else None,
           "sig": -rc if (rc is not None and rc < 0) else None, "hung": hung, "out": out, "err": err}
    res["outcome"] = "HANG" if hung else ("E%d" % res["rc"] if res["rc"] is not None else
                                          "K" + SIGNAME.get(res["sig"], str(res["sig"])))
    return res


def run_real(exe, scn, d, env_extra=None, timeout=20, wrapper=()):
    """Materialise and run; returns dict(rc, sig, hung, out, err, listing).  wrapper: argv prefix (e.g. prlimit)."""
    materialise(scn, d)
    env = {"PATH": os.environ.get("PATH", "/usr/bin:/bin"), "LC_ALL": "C"}
    if env_extra:
        env.update(env_extra)
    t0 = time.time_ns() - 2_000_000_000
    try:
        p = subprocess.run(list(wrapper) + [exe] + argv_of(scn), cwd=d, env=env, stdin=subprocess.DEVNULL,
                           stdout=subprocess.PIPE, stderr=subprocess.PIPE, timeout=timeout)
        rc, hung, out, err = p.returncode, False, p.stdout, p.stderr
    except subprocess.TimeoutExpired as ex:
        rc, hung, out, err = None, True, ex.stdout or b"", ex.stderr or b""
    res = {"rc": rc if (rc is not None and rc >= 0) else None,
           "sig": -rc if (rc is not None and rc < 0) else None, "hung": hung,
           "out": out, "err": err, "listing": real_listing(d, t0)}
    res["outcome"] = "HANG" if hung else ("E%d" % res["rc"] if res["rc"] is not None else
                                          "K" + SIGNAME.get(res["sig"], str(res["sig"])))
    return res


# ---------------------------------------------------------------------------
# codec instances: the real binary as a filter
# ---------------------------------------------------------------------------
class Codec:
    def __init__(self, exe):
        self.exe = exe
        self.cache = {}

    def get(self, mode, data, extra=()):
        """mode C (compress), X (expand), P (copy, -dcf; data = content after the 4 header bytes
        is handled by the caller).  Returns (ok, output bytes)."""
        key = (mode, hashlib.sha256(data).digest(), tuple(extra))
        if key in self.cache:
            return self.cache[key]
        flags = {"C": ["-c"], "X": ["-dc"], "P": ["-dcf"]}[mode]
        p = subprocess.run([self.exe, "-n2"] + list(extra) + flags, input=data, stdout=subprocess.PIPE, stderr=subprocess.PIPE,
                           env={"PATH": "/usr/bin:/bin"}, timeout=60)
        r = (p.returncode == 0, p.stdout)
        self.cache[key] = r
        return r


def hdr_ok(d):
    return len(d) >= 4 and d[:3] == b"BZh" and 0x31 <= d[3] <= 0x39


def codec_lines_simple(codec, scn, cfg):
    """CODEC lines for fault-free comparison: the whole output as one write."""
    lines = []
    seen = set()
    for ino, nd in scn["inodes"].items():
        if nd["kind"] == "p":
            continue
        d = nd["data"] if nd["kind"] == "r" else b""     # a directory is handed to the codec as empty input
        if not cfg["decompress"]:
            jobs = [("C", d, d, b"")]
        elif hdr_ok(d):
            jobs = [("X", d, d, b"")]
        elif cfg["force"] and cfg["outmode"] == "c":
            jobs = [("P", d[4:], d, d[:4])]
        else:
            jobs = []
        for mode, key, full, strip in jobs:
            if (mode, key) in seen:
                continue
            seen.add((mode, key))
            ok, out = codec.get(mode, full, tuple(scn.get("xflags", [])))
            if ok and strip:
                if not out.startswith(strip):
                    ok = False
                out = out[len(strip):]
            ev = ["W" + out.hex()] if (ok and out) else []
            lines.append("CODEC %s %s %d %s" % (mode, hx(key), 1 if ok else 0, " ".join(ev)))
    return lines


# ---------------------------------------------------------------------------
# model side
# ---------------------------------------------------------------------------
def case_text(cid, scn, codec_lines, uid=0, gid=0):
    cfg = cfg_of_flags(scn["flags"])
    L = ["CASE %s" % cid,
         "CFG %d %d %d %s %d %d %d" % (cfg["decompress"], cfg["force"], cfg["keep"], cfg["outmode"], uid, gid, NOW)]
    for ino, nd in sorted(scn["inodes"].items()):
        L.append("INODE %d %s %d %d %d %d %d %s" % (ino, nd["kind"], nd["mode"], nd["uid"], nd["gid"],
                                                   nd["atime"], nd["mtime"], hx(nd["data"])))
    for p, e in scn["names"].items():
        if e[0] == "L":
            L.append("NAME %s L %d" % (hx(p), e[1]))
        else:
            L.append("NAME %s S %s" % (hx(p), hx(e[1])))
    for op in scn["ops"]:
        L.append("OP %s" % hx(op))
    pl = scn.get("plan")
    if pl:
        L.append("PLAN %s %d %s %s" % (pl[0], pl[1], pl[2], pl[3]))
    L += codec_lines
    L.append("END")
    return "\n".join(L) + "\n"


def build_driver():
    return vlib.build_ocaml("front_model", os.path.join(vlib.COQ, "Extract", "ml"), ["front_model"], "front_driver.ml")


def run_model(cases_text):
    """Run the extracted model on a batch of cases; returns {id: result dict}."""
    drv = build_driver()
    rc, out, err = vlib.sh([drv], input=cases_text.encode(), timeout=900)
    if rc != 0:
        raise RuntimeError("front_model driver failed rc=%s: %s" % (rc, err[-500:]))
    res = {}
    cur = None
    for line in out.splitlines():
        w = line.split(" ")
        if w[0] == "RESULT":
            cur = {"outcome": w[2], "msgs": [], "hist": [], "stdout": b"", "listing": [], "miss": []}
            res[w[1]] = cur
        elif w[0] == "MSG":
            cur["msgs"].append((w[1], w[2]))
        elif w[0] == "HIST":
            cur["hist"].append({"op": unhx(w[1]).decode("latin-1"), "disp": w[2], "rmfail": w[3] == "1",
                                "cleanfail": w[4] == "1"})
        elif w[0] == "STDOUT":
            cur["stdout"] = unhx(w[1])
        elif w[0] == "CODECMISS":
            cur["miss"].append((w[1], unhx(w[2])))
        elif w[0] == "L":
            p = unhx(w[1]).decode("latin-1")
            if w[2] == "F":
                e = {"path": p, "kind": w[3], "mode": int(w[4]), "nlink": int(w[5]), "uid": int(w[6]), "gid": int(w[7]),
                     "atime": int(w[8]), "mtime": int(w[9])}
                if w[3] == "r":
                    e["data"] = unhx(w[10])
                cur["listing"].append(e)
            elif w[2] == "S":
                cur["listing"].append({"path": p, "kind": "l", "target": unhx(w[3]).decode("latin-1")})
            else:
                cur["listing"].append({"path": p, "kind": "?"})
        elif w[0] == "BADLINE":
            raise RuntimeError("driver: " + line)
    for r in res.values():
        r["listing"].sort(key=lambda e: e["path"])
    return res


def short(e):
    e = dict(e)
    if "data" in e:
        d = e.pop("data")
        e["size"] = len(d)
        e["sha"] = hashlib.sha256(d).hexdigest()[:12]
    return e


def compare(scn, real, model, check_stdout=True):
    """List of human-readable differences between the real run and the model."""
    diffs = []
    if model["miss"]:
        diffs.append("model asked for a codec instance that was not supplied: %s" % [(m, len(d)) for m, d in model["miss"]])
    if real["outcome"] != model["outcome"]:
        diffs.append("outcome real=%s model=%s" % (real["outcome"], model["outcome"]))
    rl = {e["path"]: e for e in real["listing"]}
    ml = {e["path"]: e for e in model["listing"]}
    initial = set(scn["names"])
    # an input that is read twice in one run (operand repeated, or two operands naming one inode)
    # has had its atime touched by the first pass; the model does not describe atime updates by read()
    def op_ino(p, depth=0):
        e = scn["names"].get(p)
        if e is None or depth > 40:
            return None
        return e[1] if e[0] == "L" else op_ino(e[1], depth + 1)
    inos = [op_ino(p) for p in scn["ops"]]
    reread = len([i for i in inos if i is not None]) != len(set(i for i in inos if i is not None))
    for p in sorted(set(rl) | set(ml)):
        a, b = rl.get(p), ml.get(p)
        if a is None or b is None:
            diffs.append("path %r: real=%s model=%s" % (p, short(a) if a else "absent", short(b) if b else "absent"))
            continue
        if a["kind"] != b["kind"]:
            diffs.append("path %r: kind real=%s model=%s" % (p, a["kind"], b["kind"]))
            continue
        if a["kind"] == "l":
            if a["target"] != b["target"]:
                diffs.append("path %r: symlink target real=%r model=%r" % (p, a["target"], b["target"]))
            continue
        fields = ["mode", "uid", "gid"]
        if a["kind"] == "r":
            fields += ["nlink", "mtime", "data"]
            if p not in initial and not (reread and a["atime"] == NOW):
                fields.append("atime")
        for f in fields:
            if a[f] != b[f]:
                diffs.append("path %r: %s real=%s model=%s" % (p, f, short(a).get(f, short(a).get("sha")), short(b).get(f, short(b).get("sha"))))
    rm = classify_stderr(real["err"])
    mm = canon_model_msgs(model["msgs"])
    if [t for _, t in rm] != [t for _, t in mm] or any(c1 != c2 and "any" not in (c1, c2) for (c1, _), (c2, _) in zip(rm, mm)):
        diffs.append("diagnostics real=%s model=%s" % (rm, mm))
    fatal = model["outcome"] not in ("E0", "E4")
    if check_stdout and not fatal and real["out"] != model["stdout"]:
        diffs.append("stdout real=%d bytes sha %s model=%d bytes sha %s" % (
            len(real["out"]), hashlib.sha256(real["out"]).hexdigest()[:12],
            len(model["stdout"]), hashlib.sha256(model["stdout"]).hexdigest()[:12]))
    return diffs


def scn_brief(scn):
    """Compact, replayable description of a scenario (data in hex)."""
    return {"flags": scn["flags"], "ops": scn["ops"], "plan": scn.get("plan"),
            "names": {p: list(e) for p, e in scn["names"].items()},
            "inodes": {str(i): dict(nd, data=nd["data"].hex()) for i, nd in scn["inodes"].items()}}


def scn_from_brief(b):
    return {"flags": b["flags"], "ops": b["ops"], "plan": tuple(b["plan"]) if b.get("plan") else None,
            "names": {p: tuple(e) for p, e in b["names"].items()},
            "inodes": {int(i): dict(nd, data=bytes.fromhex(nd["data"])) for i, nd in b["inodes"].items()}}


# ---------------------------------------------------------------------------
# scenario generator (shared by C17 and C18)
# ---------------------------------------------------------------------------
SUFFIXES = [".bz2", ".tbz", ".tbz2", ".tz2"]
CORNER_NAMES = [".bz2", ".tbz", ".tbz2", ".tz2", "a.tbz2", "x.tz2.bz2", "bz2", "z2", "b.tar.bz2", "a.bz2.out",
                "a.bz", "a.bz22", "a.tbz2.tbz", "a.tz2.tar", "a..bz2", "A.BZ2", "a.out", "tbz2"]


class Gen:
    def __init__(self, rng, codec):
        self.r = rng
        self.codec = codec

    def plain(self):
        r = self.r
        k = r.below(8)
        if k == 0:
            return b""
        if k == 1:
            return bytes([r.below(256)])
        if k == 2:
            return r.bytes(r.range(2, 300))                 # incompressible
        if k == 3:
            return bytes([r.below(4) + 97]) * r.range(1, 2000)
        if k == 4:
            return b"BZh9" + r.bytes(r.range(0, 40))       # looks like a stream, is none
        if k == 5:
            return b"BZ"[:r.range(1, 2)]                   # shorter than a header
        return bytes(r.choice(b"abc \n") for _ in range(r.range(1, 600)))

    def compressed(self, corrupt=False):
        data = self.plain()
        ok, z = self.codec.get("C", data)
        if not ok:
            # the binary does not even work as a filter (reported by the checks); keep generating with an independent encoder
            import bz2
            z = bz2.compress(data)
            self.codec_broken = True
        if corrupt:
            z = bytearray(z)
            k = self.r.below(3)
            if k == 0 and len(z) > 12:
                z[self.r.range(10, len(z) - 1)] ^= 1 << self.r.below(8)
            elif k == 1:
                z = z[:self.r.range(4, max(4, len(z) - 1))]
            else:
                z[self.r.range(4, min(9, len(z) - 1))] ^= 0x55
            z = bytes(z)
        return z

    def times(self):
        r = self.r
        return (r.range(T_PLANT_LO, T_PLANT_HI - 1) * 10**9 + r.choice([0, 1, 999999999, r.below(10**9)]),
                r.range(T_PLANT_LO, T_PLANT_HI - 1) * 10**9 + r.choice([0, 1, 999999999, r.below(10**9)]))

    def mode(self):
        r = self.r
        m = r.choice([0o400, 0o600, 0o644, 0o640, 0o755, 0o777, 0o444, 0o700, 0o664, 0o604, 0o000, 0o111,
                      r.below(0o1000)])
        if r.chance(1, 6):
            m |= r.choice([0o4000, 0o2000, 0o1000, 0o6000, 0o7000])
        return m

    def basename(self, decompress):
        r = self.r
        k = r.below(10)
        stem = r.choice(["a", "b", "f1", "data", "x.y", "name with space", "long" * 5, "q"])
        if k < 3:
            return stem + (r.choice([".bz2", ".tbz", ".tbz2", ".tz2"]) if decompress or r.chance(1, 3) else r.choice(["", ".txt", ".tar"]))
        if k < 5:
            return r.choice(CORNER_NAMES)
        if k < 7:
            return stem + r.choice(["", ".txt", ".c", ".tar", ".out", ".bz", ".z2"])
        return stem + r.choice(SUFFIXES + ["", ".dat"])

    def scenario(self, nops=None, allow_fifo_operand=True):
        r = self.r
        mode = r.choice(["z", "z", "d", "d", "t"])
        om = "t" if mode == "t" else r.choice(["r", "r", "r", "c"])
        flags = []
        if mode == "d":
            flags.append(r.choice(["-d", "--decompress"]))
        elif mode == "z" and r.chance(1, 3):
            flags.append("-z")
        if om == "c":
            flags.append(r.choice(["-c", "--stdout"]))
        if om == "t":
            flags.append(r.choice(["-t", "--test"]))
        force = r.chance(1, 4)
        keep = r.chance(1, 3)
        if force:
            flags.append("-f")
        if keep:
            flags.append("-k")
        flags = r.shuffle(flags)
        cfg = cfg_of_flags(flags)
        dec = cfg["decompress"]
        inodes, names, ops = {}, {}, []
        nxt = [10]

        def new_inode(kind, data=b"", mode=None):
            i = nxt[0]
            nxt[0] += 1
            at, mt = self.times()
            inodes[i] = {"kind": kind, "mode": self.mode() if mode is None else mode, "uid": r.choice([0, 0, 1000, 1234]),
                         "gid": r.choice([0, 0, 100, 4321]), "atime": at, "mtime": mt, "data": data}
            return i

        sub = None
        if r.chance(1, 5):
            sub = "sub"
            names[sub] = ("L", new_inode("d", mode=0o755))
        n = nops if nops is not None else r.choice([1, 1, 1, 2, 2, 3, 4, 5])
        hist = {}
        for _ in range(n):
            for _try in range(20):
                nm = self.basename(dec)
                if sub and r.chance(1, 3) and nm not in SUFFIXES:     # "sub/.bz2" would name the directory itself
                    nm = sub + "/" + nm
                if nm not in names:
                    break
            else:
                continue
            k = r.below(20)
            can_block = cfg["outmode"] == "r" and not cfg["force"]      # fifo operands are only safe if lstat rejects them
            if k == 0:
                what = "missing"
            elif k == 1:
                what = "dir"
                names[nm] = ("L", new_inode("d", mode=0o755))
            elif k == 2 and can_block and allow_fifo_operand:
                what = "fifo"
                names[nm] = ("L", new_inode("p"))
            elif k == 3:
                what = "symlink"
                tgt = nm + ".target"
                if r.chance(1, 4):
                    pass                                      # dangling
                else:
                    names[tgt] = ("L", new_inode("r", self.compressed() if dec else self.plain()))
                names[nm] = ("S", tgt)
            elif k == 4:
                what = "hardlink"
                i = new_inode("r", self.compressed() if dec else self.plain())
                names[nm] = ("L", i)
                names[nm + ".lnk"] = ("L", i)
            else:
                if dec:
                    kk = r.below(10)
                    data = self.compressed(corrupt=True) if kk == 0 else self.plain() if kk == 1 else self.compressed()
                    what = "corrupt" if kk == 0 else "notbz2" if kk == 1 else "regular"
                else:
                    data = self.plain()
                    what = "empty" if not data else "regular"
                names[nm] = ("L", new_inode("r", data))
            ops.append(nm)
            hist[what] = hist.get(what, 0) + 1
            # pre-existing output?
            if r.chance(1, 4):
                outs = [nm + ".bz2"] if not dec else [nm[:-4] if nm.endswith(".bz2") else
                                                       nm[:-5] + ".tar" if nm.endswith(".tbz2") else
                                                       nm[:-4] + ".tar" if nm.endswith((".tbz", ".tz2")) else nm + ".out"]
                for o in outs:
                    if o and o not in names and not o.endswith("/"):
                        kk = r.below(6)
                        if kk == 0:
                            names[o] = ("L", new_inode("d", mode=0o755))
                        elif kk == 1:
                            names[o] = ("S", r.choice([nm, "nowhere", o + ".t2"]))
                        elif kk == 2 and names.get(nm, ("S",))[0] == "L" and inodes[names[nm][1]]["kind"] == "r":
                            names[o] = ("L", names[nm][1])            # output name is a hard link to the input
                        else:
                            names[o] = ("L", new_inode("r", r.bytes(r.range(0, 50))))
                        hist["preexisting-output"] = hist.get("preexisting-output", 0) + 1
        if r.chance(1, 6) and ops:
            ops.append(r.choice(ops))                     # the same operand twice
            hist["repeated"] = hist.get("repeated", 0) + 1
        if r.chance(1, 3):
            names["bystander"] = ("L", new_inode("r", b"bystander"))
        scn = {"inodes": inodes, "names": names, "ops": ops, "flags": flags, "plan": None}
        return scn, hist

