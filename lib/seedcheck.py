#!/usr/bin/env python3
"""Validate a seeded breaking change produced by an independent sub-agent and run our
checks against it.

usage: seedcheck.py <id> <seed dir (with out/patch.diff, out/demo.*, out/meta.json)> <demo arg kind: bin|src> [checks...]

Steps (all in a fresh scratch worktree outside /repo and /verif, removed afterwards):
 1. git worktree add; git apply patch.diff
 2. cmake build + full ctest (must be 1111/1111)
 3. demo on the patched build (must fail) and on the unpatched /repo/_build (must pass)
 4. VERIF_REPO=<worktree> ./check <C> for each requested check; record VIOLATION lines
 5. copy patch + demo + augmented meta.json to /verif/seeded/<id>/
"""
import json
import os
import shutil
import subprocess
import sys
import time


def sh(cmd, **kw):
    p = subprocess.run(cmd, shell=isinstance(cmd, str), stdout=subprocess.PIPE, stderr=subprocess.STDOUT, **kw)
    return p.returncode, p.stdout.decode("latin-1")


def main():
    sid, sdir, kind = sys.argv[1], sys.argv[2], sys.argv[3]
    checks = sys.argv[4:]
    out = os.path.join(sdir, "out")
    work = "/tmp/sv/" + sid
    shutil.rmtree(work, ignore_errors=True)
    os.makedirs(work)
    wt = work + "/repo"
    res = {"id": sid, "validated_at": time.strftime("%Y-%m-%d %H:%M:%S")}
    try:
        rc, o = sh(["git", "-C", "/repo", "worktree", "add", "-q", "--detach", wt, "HEAD"])
        rc, o = sh(["git", "-C", wt, "apply", os.path.join(out, "patch.diff")])
        res["patch_applies"] = rc == 0
        if rc != 0:
            res["error"] = o[-500:]
            return res
        rc, o = sh("cmake -G Ninja -S %s -B %s/build -DCMAKE_BUILD_TYPE=RelWithDebInfo >/dev/null && cmake --build %s/build 2>&1 | tail -2" % (wt, work, work))
        res["builds"] = rc == 0
        rc, o = sh("ctest --test-dir %s/build -j8 --timeout 900 2>&1 | tail -4" % work)
        res["ctest"] = " ".join(o.split())[-160:]
        res["tests_pass"] = "100% tests passed" in o
        demo = None
        for n in ("demo.sh", "demo.py"):
            if os.path.exists(os.path.join(out, n)):
                demo = n
        interp = ["bash"] if demo.endswith(".sh") else ["python3"]
        arg_p = work + "/build/lbzip2" if kind == "bin" else wt
        arg_u = "/repo/_build/lbzip2" if kind == "bin" else "/repo"
        rc1, o1 = sh(interp + [os.path.join(out, demo), arg_p], cwd=out, timeout=1800)
        rc0, o0 = sh(interp + [os.path.join(out, demo), arg_u], cwd=out, timeout=1800)
        res["demo"] = {"patched_rc": rc1, "unpatched_rc": rc0, "patched_tail": o1[-300:], "unpatched_tail": o0[-200:]}
        res["demo_confirms"] = rc1 != 0 and rc0 == 0
        res["checks"] = {}
        for c in checks:
            env = dict(os.environ)
            env["VERIF_REPO"] = wt
            t0 = time.time()
            rc, o = sh(["./check", c], cwd="/verif", env=env, timeout=3600)
            v = [l for l in o.splitlines() if l.startswith("VIOLATION") or l.startswith("KNOWN-FINDING")]
            detail = [l for l in o.splitlines() if l.startswith("  ")][:4]
            res["checks"][c] = {"exit": rc, "violation_lines": v[:4], "detail": detail, "wall_s": round(time.time() - t0, 1)}
    finally:
        sh(["git", "-C", "/repo", "worktree", "remove", "--force", wt])
        shutil.rmtree(work, ignore_errors=True)
    return res


if __name__ == "__main__":
    r = main()
    sid, sdir = sys.argv[1], sys.argv[2]
    dst = "/verif/seeded/" + sid
    os.makedirs(dst, exist_ok=True)
    out = os.path.join(sdir, "out")
    for n in os.listdir(out):
        p = os.path.join(out, n)
        if os.path.isfile(p) and os.path.getsize(p) < 2_000_000:
            shutil.copy(p, dst)
    meta = {}
    try:
        meta = json.load(open(os.path.join(out, "meta.json")))
    except Exception as e:
        meta = {"meta_error": str(e)}
    meta["coordinator_validation"] = r
    json.dump(meta, open(os.path.join(dst, "meta.json"), "w"), indent=1)
    print(json.dumps(r, indent=1))
